"""Shared runner: seeding, sharding, counters, evidence, replays, known findings.

A property module (pbt/props/cNN.py) exposes

    PROPERTY = "C20"
    def checks(tier) -> list[Check]

A Check is one generated-input search against one oracle.  Its property
function ``fn(spec, rec)`` gets a plain-JSON *spec*, builds live glue objects
from it, runs the code under test and the oracle, and either returns or raises
``Mismatch(signature, detail)``.  ``rec`` receives classification labels and
the non-triviality verdict of the case.
"""
import hashlib
import json
import os
import sys
import time
import traceback
import multiprocessing as mp
from collections import Counter

VERIF = os.path.dirname(os.path.dirname(os.path.abspath(__file__)))
ROOT = os.path.realpath(os.environ.get("GLUE_VERIF_ROOT", "/repo"))
NPROC = int(os.environ.get("VERIF_NPROC", "16"))


class Mismatch(Exception):
    """The code under test disagrees with the oracle."""

    def __init__(self, signature, detail=None, spec=None):
        Exception.__init__(self, signature)
        self.signature = signature
        self.detail = detail
        self.spec = spec  # optional: the single sub-case of an enumerated block that failed


class HarnessError(Exception):
    pass


class Rec:
    __slots__ = ("labels", "nontrivial", "loud", "bulk_evals", "bulk_nt")

    def __init__(self):
        self.labels = []
        self.nontrivial = False
        self.loud = None
        self.bulk_evals = 0
        self.bulk_nt = 0

    def bulk(self, evals, nt):
        """An enumerated block: `evals` sub-cases were checked, `nt` of them non-trivial (all distinct)."""
        self.bulk_evals += evals
        self.bulk_nt += nt

    def label(self, *names):
        self.labels.extend(names)

    def nt(self, flag=True):
        self.nontrivial = bool(flag)


class Check:
    """kind: 'hyp' (strategy -> spec), 'enum' (iterable of specs, sharded), 'fixed' (list of specs, shard 0 only)."""

    def __init__(self, name, fn, strategy=None, examples=100, enum=None,
                 kind=None, shards=None, count_distinct=True, reset=True):
        self.name = name
        self.fn = fn
        self.strategy = strategy
        self.examples = examples
        self.enum = enum
        self.kind = kind or ("hyp" if strategy is not None else "enum")
        self.shards = shards
        self.count_distinct = count_distinct
        self.reset = reset


def canon(spec):
    return json.dumps(spec, sort_keys=True, default=_default, separators=(",", ":"))


def _default(o):
    import numpy as np
    if isinstance(o, np.ndarray):
        return o.tolist()
    if isinstance(o, (np.integer,)):
        return int(o)
    if isinstance(o, (np.floating,)):
        return float(o)
    if isinstance(o, (np.bool_,)):
        return bool(o)
    if isinstance(o, (set, frozenset)):
        return sorted(o, key=repr)
    if isinstance(o, tuple):
        return list(o)
    if isinstance(o, bytes):
        return o.decode("latin1")
    return repr(o)


def spec_hash(spec):
    return hashlib.sha1(canon(spec).encode()).hexdigest()[:16]


def jsonable(spec):
    return json.loads(canon(spec))


# ----------------------------------------------------------------------------
# classification of exceptions: glue raised (candidate violation) vs harness bug

def blame(exc):
    """Return ('glue', 'file:func') if the innermost project frame is in the
    tree under test, ('harness', where) if it is in /verif."""
    tb = traceback.extract_tb(exc.__traceback__)
    for fr in reversed(tb):
        fn = os.path.realpath(fr.filename)
        if fn.startswith(os.path.join(ROOT, "glue") + os.sep):
            rel = os.path.relpath(fn, ROOT)
            return "glue", "%s:%s" % (rel, fr.name)
        if fn.startswith(VERIF + os.sep):
            return "harness", "%s:%s:%d" % (os.path.relpath(fn, VERIF), fr.name, fr.lineno)
    return "harness", "unknown"


def exc_signature(exc, where=""):
    who, loc = blame(exc)
    if who != "glue":
        return None
    return "exc/%s/%s%s" % (type(exc).__name__, loc, ("@" + where) if where else "")


class guarded:
    """``with guarded('stage'):`` turns an exception raised *by glue* into a
    Mismatch with an exception signature; exceptions blamed on the harness
    propagate as harness errors."""

    def __init__(self, where="", allow=()):
        self.where = where
        self.allow = allow

    def __enter__(self):
        return self

    def __exit__(self, et, ev, tb):
        if ev is None or isinstance(ev, (Mismatch, HarnessError)):
            return False
        if not isinstance(ev, Exception):
            return False
        if self.allow and isinstance(ev, self.allow):
            return False
        sig = exc_signature(ev, self.where)
        if sig is None:
            return False
        raise Mismatch(sig, "".join(traceback.format_exception(et, ev, tb))[-3000:]) from None


# ----------------------------------------------------------------------------
# known findings

_KF = None


def known_findings():
    global _KF
    if _KF is None:
        p = os.path.join(VERIF, "known_findings.json")
        if os.path.exists(p):
            with open(p) as f:
                _KF = json.load(f)
        else:
            _KF = {"open": [], "fixed": []}
    return _KF


def open_signatures(pid):
    return {e["signature"]: e for e in known_findings().get("open", []) if e["property"] == pid}


# ----------------------------------------------------------------------------
# worker

class Stats:
    def __init__(self):
        self.evaluations = 0
        self.nt_hashes = set()
        self.nt_count = 0
        self.nt_enum = 0
        self.labels = Counter()
        self.excluded = Counter()
        self.samples = {}
        self.per_check = Counter()
        self.failures = []
        self.harness_errors = []
        self.notes = []

    def as_dict(self):
        return dict(evaluations=self.evaluations, nt_hashes=sorted(self.nt_hashes), nt_count=self.nt_count, nt_enum=self.nt_enum,
                    labels=dict(self.labels), excluded=dict(self.excluded), samples=self.samples,
                    per_check=dict(self.per_check), failures=self.failures,
                    harness_errors=self.harness_errors, notes=self.notes)


def call_case(check, spec, stats, open_sigs, pid):
    """Run one case.  Returns None if held (or excluded as known), else a Mismatch."""
    from . import reset
    if check.reset:
        reset.reset_all()
    rec = Rec()
    stats.evaluations += 1
    stats.per_check[check.name] += 1
    try:
        check.fn(spec, rec)
        err = None
    except Mismatch as m:
        err = m
    except Exception as e:  # noqa
        sig = exc_signature(e)
        if sig is None:
            raise
        err = Mismatch(sig, "".join(traceback.format_exception(type(e), e, e.__traceback__))[-3000:])
    for lab in rec.labels:
        stats.labels[check.name + ":" + lab] += 1
    if rec.bulk_evals:
        stats.evaluations += rec.bulk_evals - 1
        stats.per_check[check.name] += rec.bulk_evals - 1
        stats.nt_count += rec.bulk_nt
        stats.nt_enum += rec.bulk_nt
    if err is not None and err.signature in open_sigs:
        stats.excluded[err.signature] += 1
        return None
    if err is None and rec.nontrivial:
        stats.nt_count += 1
        if check.count_distinct:
            stats.nt_hashes.add(spec_hash(spec))
        else:
            stats.nt_enum += 1
        lst = stats.samples.setdefault(check.name, [])
        if len(lst) < 2:
            lst.append(jsonable(spec))
    return err


def run_hyp(check, stats, open_sigs, pid, seed, examples):
    import hypothesis
    from hypothesis import given, settings, HealthCheck, Phase
    from hypothesis.errors import FailedHealthCheck, Unsatisfiable

    last = {}

    def body(spec):
        err = call_case(check, spec, stats, open_sigs, pid)
        if err is not None:
            last["spec"] = jsonable(err.spec if err.spec is not None else spec)
            last["err"] = err
            raise err

    phases = [Phase.explicit, Phase.generate, Phase.shrink]
    test = settings(max_examples=examples, database=None, deadline=None, derandomize=False,
                    report_multiple_bugs=False, print_blob=False, phases=phases,
                    suppress_health_check=[HealthCheck.too_slow, HealthCheck.data_too_large,
                                           HealthCheck.large_base_example])(
        hypothesis.seed(seed)(given(check.strategy)(body)))
    try:
        test()
    except Mismatch:
        return dict(check=check.name, signature=last["err"].signature, detail=last["err"].detail,
                    spec=last["spec"], seed=seed)
    except (FailedHealthCheck, Unsatisfiable) as e:
        raise HarnessError("hypothesis health check in %s: %s" % (check.name, e))
    return None


def ddmin_ops(check, spec, key, stats, open_sigs, pid, sig):
    """Greedy reduction of a list-valued field keeping the same signature (used for enum checks)."""
    return spec


def worker(args):
    pid, tier, seed, shard, nshards, only = args
    os.environ["VERIF_SHARD"] = str(shard)
    import importlib
    stats = Stats()
    t0 = time.time()
    try:
        sys.setrecursionlimit(3000)
        from . import reset
        reset.process_setup()
        mod = importlib.import_module("pbt.props." + pid.lower())
        open_sigs = open_signatures(pid)
        for check in mod.checks(tier):
            if only and check.name not in only:
                continue
            n = check.shards if check.shards is not None else nshards
            if shard >= n:
                continue
            if check.kind == "hyp":
                ex = max(1, check.examples // n)
                f = run_hyp(check, stats, open_sigs, pid, seed * 1000 + shard, ex)
                if f:
                    stats.failures.append(f)
            else:
                for i, spec in enumerate(check.enum(tier) if callable(check.enum) else check.enum):
                    if i % n != shard:
                        continue
                    err = call_case(check, spec, stats, open_sigs, pid)
                    if err is not None:
                        stats.failures.append(dict(check=check.name, signature=err.signature, detail=err.detail,
                                                   spec=jsonable(err.spec if err.spec is not None else spec), seed=seed))
                        break
    except HarnessError as e:
        stats.harness_errors.append(str(e))
    except Exception as e:  # noqa
        stats.harness_errors.append("".join(traceback.format_exception(type(e), e, e.__traceback__))[-4000:])
    d = stats.as_dict()
    d["wall_s"] = time.time() - t0
    d["shard"] = shard
    return d


# ----------------------------------------------------------------------------
# replay and regress files

def write_replay(pid, failure):
    os.makedirs(os.path.join(VERIF, "replays"), exist_ok=True)
    body = dict(property=pid, check=failure["check"], seed=failure.get("seed"), spec=failure["spec"],
                signature=failure["signature"], detail=failure.get("detail"))
    h = hashlib.sha1(canon(body["spec"]).encode() + failure["check"].encode()).hexdigest()[:12]
    path = os.path.join(VERIF, "replays", "%s-%s.json" % (pid, h))
    with open(path, "w") as f:
        json.dump(body, f, indent=1, default=_default)
    return path


def replay_file(pid, path, quiet=False):
    """Run one saved case through its property function. Returns (signature or None, detail)."""
    import importlib
    from . import reset
    reset.process_setup()
    with open(path) as f:
        body = json.load(f)
    mod = importlib.import_module("pbt.props." + pid.lower())
    byname = {c.name: c for c in mod.checks("replay")}
    check = byname.get(body["check"])
    if check is None:
        raise HarnessError("replay %s names unknown check %r" % (path, body["check"]))
    stats = Stats()
    err = call_case(check, body["spec"], stats, {}, pid)
    if err is None:
        return None, None
    return err.signature, err.detail


def regress_files(pid):
    d = os.path.join(VERIF, "regress", pid)
    if not os.path.isdir(d):
        return []
    return sorted(os.path.join(d, f) for f in os.listdir(d) if f.endswith(".json"))


# ----------------------------------------------------------------------------
# parent

def run_property(pid, tier, only=None):
    import importlib
    t0 = time.time()
    seed = int(os.environ.get("VERIF_SEED", "1"))
    mod_name = "pbt.props." + pid.lower()
    violations = []
    known_lines = []

    # 1. pinned regressions and known-finding reproductions, each in this process
    opens = open_signatures(pid)
    kf_by_file = {e.get("regress"): e for e in opens.values() if e.get("regress")}
    regress_run = 0
    for path in regress_files(pid):
        rel = os.path.relpath(path, VERIF)
        regress_run += 1
        sig, detail = replay_file(pid, path)
        if rel in kf_by_file:
            e = kf_by_file[rel]
            if sig == e["signature"]:
                known_lines.append("KNOWN-FINDING: property=%s %s [signature=%s repro=%s]" % (pid, e["what"], sig, rel))
            elif sig is None:
                print("NOTE: listed finding %s no longer reproduces from %s" % (e["signature"], rel))
            else:
                violations.append((path, sig))
        elif sig is not None:
            if sig in opens:
                continue
            violations.append((path, sig))
    for line in known_lines:
        print(line)

    # 2. generated search, sharded
    nshards = NPROC
    args = [(pid, tier, seed, i, nshards, only) for i in range(nshards)]
    ctx = mp.get_context("fork")
    results = []
    died = []
    # ProcessPoolExecutor (unlike Pool.map) notices a worker that dies (e.g. a segfault in a C extension) instead of hanging
    from concurrent.futures import ProcessPoolExecutor
    from concurrent.futures.process import BrokenProcessPool
    with ProcessPoolExecutor(max_workers=nshards, mp_context=ctx) as pool:
        futures = [pool.submit(worker, a) for a in args]
        for a, f in zip(args, futures):
            try:
                results.append(f.result())
            except BrokenProcessPool:
                died.append(a[3])
    if died:
        print("HARNESS-ERROR in %s: worker process(es) for shard(s) %s died (crash in a C extension?)" % (pid, died))

    merged = Stats()
    harness = []
    for r in results:
        merged.evaluations += r["evaluations"]
        merged.nt_hashes.update(r["nt_hashes"])
        merged.nt_count += r["nt_count"]
        merged.nt_enum += r["nt_enum"]
        merged.labels.update(r["labels"])
        merged.excluded.update(r["excluded"])
        merged.per_check.update(r["per_check"])
        for k, v in r["samples"].items():
            lst = merged.samples.setdefault(k, [])
            if len(lst) < 2:
                lst.extend(v[:2 - len(lst)])
        merged.failures.extend(r["failures"])
        harness.extend(r["harness_errors"])

    mod = importlib.import_module(mod_name)
    # hashed specs are distinct by hash; enumerated checks (count_distinct=False) are distinct by
    # construction of the enumeration and are counted, not hashed
    distinct = len(merged.nt_hashes) + merged.nt_enum

    seen = set()
    for f in merged.failures:
        key = (f["check"], f["signature"])
        if key in seen:
            continue
        seen.add(key)
        path = write_replay(pid, f)
        violations.append((path, f["signature"]))

    samples = []
    for k, v in sorted(merged.samples.items()):
        for s in v:
            samples.append({"check": k, "spec": s})
    wall = time.time() - t0
    ev = dict(
        property_id=pid, tier=tier if tier in ("quick", "thorough") else "quick", seed=seed, level="exploration",
        coverage=dict(
            evaluations=merged.evaluations,
            distinct_nontrivial=distinct,
            rule=getattr(mod, "RULE", ""),
            samples=samples[:12],
            exhaustive=bool(getattr(mod, "EXHAUSTIVE", {}).get(tier)) if hasattr(mod, "EXHAUSTIVE") else False,
            bounds=getattr(mod, "EXHAUSTIVE", {}).get(tier) if hasattr(mod, "EXHAUSTIVE") else None,
            per_check=dict(merged.per_check),
            classes=dict(sorted(merged.labels.items())),
            excluded_known=dict(merged.excluded),
            known_findings_reproduced=len(known_lines),
            regress_replayed=regress_run,
            shards=nshards,
        ),
        assumptions=list(getattr(mod, "ASSUMPTIONS", [])),
        wall_s=round(wall, 2),
        violations=len(violations),
    )
    if harness:
        ev["coverage"]["harness_errors"] = harness[:3]
    os.makedirs(os.path.join(VERIF, "evidence"), exist_ok=True)
    # evidence describes the tree the manifest commands run on: partial runs (--only) and runs against another tree
    # (tools/seedtest.sh sets VERIF_NO_EVIDENCE) leave the file alone
    if not only and not os.environ.get("VERIF_NO_EVIDENCE"):
        with open(os.path.join(VERIF, "evidence", pid + ".json"), "w") as f:
            json.dump(ev, f, indent=1, default=_default)

    print("%s %s seed=%d evaluations=%d distinct_nontrivial=%d excluded_known=%d wall=%.1fs" % (
        pid, tier, seed, merged.evaluations, distinct, sum(merged.excluded.values()), wall))
    if harness:
        print("HARNESS-ERROR in %s:" % pid)
        for h in harness[:3]:
            print(h)
    for path, sig in violations:
        print("signature: %s" % sig)
        print("VIOLATION property=%s replay=%s" % (pid, os.path.relpath(path, VERIF)))
    if violations:
        return 1
    if harness or died:
        return 2
    return 0
