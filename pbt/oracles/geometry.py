"""Exact-geometry oracle for regions of interest, written from the definitions (no glue code).

signed(roi_spec, x, y) returns an array d with  d > 0 strictly inside, d < 0 strictly outside and
|d| a *lower bound* of the Euclidean distance to the region's boundary, so that "|d| <= tau" safely
marks every point that may be within tau of the boundary.
"""
import math

import numpy as np


def _rot(theta, x, y):
    c, s = math.cos(theta), math.sin(theta)
    return c * x - s * y, s * x + c * y


def seg_dist(px, py, ax, ay, bx, by):
    dx, dy = bx - ax, by - ay
    L2 = dx * dx + dy * dy
    if L2 == 0:
        return np.hypot(px - ax, py - ay)
    t = ((px - ax) * dx + (py - ay) * dy) / L2
    t = np.clip(t, 0.0, 1.0)
    return np.hypot(px - (ax + t * dx), py - (ay + t * dy))


def poly_signed(vx, vy, x, y):
    vx = [float(v) for v in vx]
    vy = [float(v) for v in vy]
    if len(vx) > 1 and vx[0] == vx[-1] and vy[0] == vy[-1]:
        vx, vy = vx[:-1], vy[:-1]
    n = len(vx)
    inside = np.zeros(np.shape(x), dtype=bool)
    dist = np.full(np.shape(x), np.inf)
    for i in range(n):
        ax, ay = vx[i], vy[i]
        bx, by = vx[(i + 1) % n], vy[(i + 1) % n]
        dist = np.minimum(dist, seg_dist(x, y, ax, ay, bx, by))
        # even-odd crossing of the horizontal ray to +x
        cond = (ay > y) != (by > y)
        with np.errstate(all="ignore"):
            xint = ax + (y - ay) * (bx - ax) / (by - ay) if by != ay else np.full(np.shape(x), np.inf)
        inside ^= cond & (x < xint)
    return np.where(inside, dist, -dist)


def signed(s, x, y, rho=None):
    x = np.asarray(x, dtype=float)
    y = np.asarray(y, dtype=float)
    k = s["k"]
    if rho is None:
        rho = 3e-7 * scale_of(s)
    if k == "rect":
        cx = s["xmin"] + (s["xmax"] - s["xmin"]) / 2
        cy = s["ymin"] + (s["ymax"] - s["ymin"]) / 2
        w, h = s["xmax"] - s["xmin"], s["ymax"] - s["ymin"]
        xr, yr = _rot(-s.get("theta", 0.0), x - cx, y - cy)
        return np.minimum(w / 2 - np.abs(xr), h / 2 - np.abs(yr))
    if k == "circ":
        return s["r"] - np.hypot(x - s["xc"], y - s["yc"])
    if k == "annulus":
        r = np.hypot(x - s["xc"], y - s["yc"])
        return np.minimum(r - s["ri"], s["ro"] - r)
    if k == "ellipse":
        # g = sqrt((x'/rx)^2 + (y'/ry)^2) is 1 on the boundary.  Two certified lower bounds of the distance:
        #  global: |g-1| * min(rx, ry)   (g is Lipschitz with constant 1/min(r))
        #  local : |g-1| / sup|grad g| over the ball of radius rho around the point (valid for claims "distance > t", t <= rho)
        xr, yr = _rot(-s.get("theta", 0.0), x - s["xc"], y - s["yc"])
        rx, ry = s["rx"], s["ry"]
        g = np.sqrt((xr / rx) ** 2 + (yr / ry) ** 2)
        glob = np.abs(g - 1) * min(rx, ry)
        with np.errstate(all="ignore"):
            gmin = g - rho / min(rx, ry)
            G = np.sqrt(((np.abs(xr) + rho) / rx ** 2) ** 2 + ((np.abs(yr) + rho) / ry ** 2) ** 2) / np.where(gmin > 0, gmin, np.nan)
            loc = np.where(gmin > 0, np.minimum(np.abs(g - 1) / G, rho * 1.0000001), 0.0)
        loc = np.nan_to_num(loc, nan=0.0)
        return np.sign(1 - g) * np.maximum(glob, loc)
    if k == "poly":
        return poly_signed(s["vx"], s["vy"], x, y)
    if k == "xrange" or (k == "range" and s["ori"] == "x"):
        return np.minimum(x - s["lo"], s["hi"] - x)
    if k == "yrange" or (k == "range" and s["ori"] == "y"):
        return np.minimum(y - s["lo"], s["hi"] - y)
    raise ValueError(k)


def scale_of(s):
    """Characteristic size + magnitude of the coordinates of the region (for the tolerance band)."""
    k = s["k"]
    if k == "rect":
        return max(abs(s["xmax"] - s["xmin"]), abs(s["ymax"] - s["ymin"])) + max(abs(s["xmin"]), abs(s["xmax"]), abs(s["ymin"]), abs(s["ymax"]))
    if k == "circ":
        return s["r"] + max(abs(s["xc"]), abs(s["yc"]))
    if k == "annulus":
        return s["ro"] + max(abs(s["xc"]), abs(s["yc"]))
    if k == "ellipse":
        return max(s["rx"], s["ry"]) + max(abs(s["xc"]), abs(s["yc"]))
    if k == "poly":
        return (max(s["vx"]) - min(s["vx"])) + (max(s["vy"]) - min(s["vy"])) + max(abs(v) for v in list(s["vx"]) + list(s["vy"]))
    if k in ("xrange", "yrange", "range"):
        return abs(s["hi"] - s["lo"]) + max(abs(s["lo"]), abs(s["hi"]))
    raise ValueError(k)


def tau(s, x=None, y=None, rel=1e-7):
    t = rel * (scale_of(s) + 1e-300)
    if x is not None:
        t = t + rel * (np.abs(np.asarray(x, dtype=float)) + np.abs(np.asarray(y, dtype=float)))
    return t


def contains_strict(s, x, y):
    """Plain inside test (d > 0); callers must exclude the band themselves when they need to."""
    return signed(s, x, y) > 0


def min_size(s):
    k = s["k"]
    if k == "rect":
        return min(s["xmax"] - s["xmin"], s["ymax"] - s["ymin"])
    if k == "circ":
        return s["r"]
    if k == "annulus":
        return min(s["ri"], s["ro"] - s["ri"])
    if k == "ellipse":
        return min(s["rx"], s["ry"])
    if k == "poly":
        return min(max(s["vx"]) - min(s["vx"]), max(s["vy"]) - min(s["vy"]))
    return abs(s["hi"] - s["lo"])


def bbox(s):
    k = s["k"]
    if k == "rect":
        cx, cy = center_of(s)
        r = 0.5 * math.hypot(s["xmax"] - s["xmin"], s["ymax"] - s["ymin"])
        return cx - r, cx + r, cy - r, cy + r
    if k in ("circ", "annulus", "ellipse"):
        r = s["r"] if k == "circ" else (s["ro"] if k == "annulus" else max(s["rx"], s["ry"]))
        return s["xc"] - r, s["xc"] + r, s["yc"] - r, s["yc"] + r
    if k == "poly":
        return min(s["vx"]), max(s["vx"]), min(s["vy"]), max(s["vy"])
    if k == "xrange":
        return s["lo"], s["hi"], -3.0, 3.0
    return -3.0, 3.0, s["lo"], s["hi"]


def poly_centroid(vx, vy):
    vx, vy = list(vx), list(vy)
    if vx[0] == vx[-1] and vy[0] == vy[-1]:
        vx, vy = vx[:-1], vy[:-1]
    n = len(vx)
    mx, my = sum(vx) / n, sum(vy) / n
    a = cx = cy = 0.0
    for i in range(n):
        x0, y0, x1, y1 = vx[i] - mx, vy[i] - my, vx[(i + 1) % n] - mx, vy[(i + 1) % n] - my
        cr = x0 * y1 - x1 * y0
        a += cr
        cx += (x0 + x1) * cr
        cy += (y0 + y1) * cr
    if a == 0:
        return mx, my
    return mx + cx / (3 * a), my + cy / (3 * a)


def center_of(s):
    k = s["k"]
    if k == "rect":
        return (s["xmin"] + s["xmax"]) / 2, (s["ymin"] + s["ymax"]) / 2
    if k in ("circ", "annulus", "ellipse"):
        return s["xc"], s["yc"]
    if k == "poly":
        return poly_centroid(s["vx"], s["vy"])
    raise ValueError(k)


def boundary_points(s, m=24):
    """Points exactly on the boundary (up to rounding), used to build probe rings."""
    k = s["k"]
    t = np.linspace(0, 2 * np.pi, m, endpoint=False) + 0.1
    if k == "circ":
        return s["xc"] + s["r"] * np.cos(t), s["yc"] + s["r"] * np.sin(t), np.cos(t), np.sin(t)
    if k == "annulus":
        half = m // 2
        xo = s["xc"] + s["ro"] * np.cos(t[:half])
        yo = s["yc"] + s["ro"] * np.sin(t[:half])
        xi = s["xc"] + s["ri"] * np.cos(t[half:])
        yi = s["yc"] + s["ri"] * np.sin(t[half:])
        return (np.concatenate([xo, xi]), np.concatenate([yo, yi]),
                np.concatenate([np.cos(t[:half]), -np.cos(t[half:])]), np.concatenate([np.sin(t[:half]), -np.sin(t[half:])]))
    if k == "ellipse":
        bx, by = s["rx"] * np.cos(t), s["ry"] * np.sin(t)
        nx, ny = np.cos(t) / s["rx"], np.sin(t) / s["ry"]
        nn = np.hypot(nx, ny)
        nx, ny = nx / nn, ny / nn
        th = s.get("theta", 0.0)
        bx, by = _rot(th, bx, by)
        nx, ny = _rot(th, nx, ny)
        return s["xc"] + bx, s["yc"] + by, nx, ny
    if k == "rect":
        w, h = s["xmax"] - s["xmin"], s["ymax"] - s["ymin"]
        cx, cy = center_of(s)
        u = np.linspace(-0.45, 0.45, max(2, m // 4))
        bx = np.concatenate([u * w, u * w, np.full(u.shape, w / 2), np.full(u.shape, -w / 2)])
        by = np.concatenate([np.full(u.shape, h / 2), np.full(u.shape, -h / 2), u * h, u * h])
        nx = np.concatenate([0 * u, 0 * u, 1 + 0 * u, -1 + 0 * u])
        ny = np.concatenate([1 + 0 * u, -1 + 0 * u, 0 * u, 0 * u])
        th = s.get("theta", 0.0)
        bx, by = _rot(th, bx, by)
        nx, ny = _rot(th, nx, ny)
        return cx + bx, cy + by, nx, ny
    if k == "poly":
        vx, vy = list(s["vx"]), list(s["vy"])
        if vx[0] == vx[-1] and vy[0] == vy[-1]:
            vx, vy = vx[:-1], vy[:-1]
        n = len(vx)
        bx, by, nx, ny = [], [], [], []
        for i in range(n):
            ax, ay, cx2, cy2 = vx[i], vy[i], vx[(i + 1) % n], vy[(i + 1) % n]
            for f in (0.3, 0.7):
                bx.append(ax + f * (cx2 - ax))
                by.append(ay + f * (cy2 - ay))
                ex, ey = cx2 - ax, cy2 - ay
                L = math.hypot(ex, ey) or 1.0
                nx.append(ey / L)
                ny.append(-ex / L)
        return np.array(bx), np.array(by), np.array(nx), np.array(ny)
    if k in ("xrange", "yrange"):
        u = np.linspace(-3, 3, m // 2)
        on = np.concatenate([np.full(u.shape, s["lo"]), np.full(u.shape, s["hi"])])
        nrm = np.concatenate([-1 + 0 * u, 1 + 0 * u])
        off = np.concatenate([u, u])
        if k == "xrange":
            return on, off, nrm, 0 * nrm
        return off, on, 0 * nrm, nrm
    raise ValueError(k)
