"""Session specs, builder and observer shared by C02 (round trip) and C12 (old protocol versions)."""
import math

import numpy as np
from hypothesis import strategies as st

from . import gen

LABELS = ["x", "y", "a", "x_0", "d", "Data", "__main__", "st__x", "img", "x"]


# link functions must be importable by name to survive a session round trip
def lf_double(x):
    return x * 2


def lf_half(x):
    return x / 2


def lf_shift(x):
    return x + 1


def lf_unshift(x):
    return x - 1


def lf_add(x, y):
    return x + y


def lf_pair_forwards(x, y):
    return x + y, x - y


def lf_pair_backwards(u, v):
    return (u + v) / 2, (u - v) / 2


FUNCS = {"double": (lf_double, lf_half), "shift": (lf_shift, lf_unshift)}
HELPERS2 = ["Galactic_to_FK5", "FK4_to_FK5", "ICRS_to_FK5", "Galactic_to_FK4", "ICRS_to_FK4", "ICRS_to_Galactic"]


@st.composite
def style_spec(draw):
    return {"color": draw(st.sampled_from(["#ff0000", "#00ff00", "#123456", "0.35", "#abcdef"])), "alpha": draw(st.sampled_from([0.25, 0.5, 1.0, 0.0, 0])),
            "markersize": draw(st.integers(0, 9)), "linewidth": draw(st.sampled_from([1, 2.5, 0])), "marker": draw(st.sampled_from(["o", "s", "^"]))}


@st.composite
def extra_leaf(draw, dspec):
    """selection kinds beyond gen.leaf_spec: n-d ROI states, 3-d projected ROI, pretransforms, more ROI classes"""
    nums = gen.numeric_refs(dspec)
    k = draw(st.sampled_from(["roi-annulus", "roi-range", "roi-point", "roi-pre", "roind", "roi3d"]))
    x, y = draw(st.sampled_from(nums)), draw(st.sampled_from(nums))
    if k == "roi-annulus":
        return {"t": "roi", "x": x, "y": y, "roi": {"k": "annulus", "xc": 1.0, "yc": 1.0, "ri": 0.5, "ro": draw(st.sampled_from([1.5, 3.0]))}}
    if k == "roi-range":
        return {"t": "roi", "x": x, "y": y, "roi": {"k": "range", "ori": draw(st.sampled_from(["x", "y"])), "lo": -0.5, "hi": draw(st.sampled_from([0.5, 1.5, 2.5]))}}
    if k == "roi-point":
        return {"t": "roi", "x": x, "y": y, "roi": {"k": "point", "x": 1.0, "y": 1.0}}
    if k == "roi-pre":
        return {"t": "roi", "x": x, "y": y, "roi": draw(gen.roi2d_spec(kinds=("rect", "circ", "poly"), rotated=False)),
                "pre": draw(st.sampled_from([["x"], ["x", "y"], ["y"], []]))}
    if k == "roind":
        return {"t": "roind", "atts": [x, y], "roi": draw(gen.roi2d_spec(kinds=("rect", "circ", "ellipse"), rotated=True))}
    z = draw(st.sampled_from(nums))
    M = [[1.0, 0.0, draw(st.sampled_from([0.0, 0.5])), 0.0], [0.0, 1.0, 0.0, 0.0], [0.0, 0.0, 1.0, 0.0], [0.0, 0.0, 0.0, 1.0]]
    return {"t": "roi3d", "atts": [x, y, z], "roi": {"k": "proj3d", "roi": draw(gen.roi2d_spec(kinds=("rect", "circ", "poly"), rotated=False)), "matrix": M}}


def build_extra(s, data):
    from glue.core import subset as S
    if s["t"] == "roi" and "pre" in s:
        from glue.core.roi_pretransforms import RadianTransform
        st_ = S.RoiSubsetState(gen.ref_cid(data, s["x"]), gen.ref_cid(data, s["y"]), gen.build_roi(s["roi"]))
        st_.pretransform = RadianTransform(coords=list(s["pre"]))
        return st_
    if s["t"] == "roind":
        return S.RoiSubsetStateNd([gen.ref_cid(data, a) for a in s["atts"]], gen.build_roi(s["roi"]))
    if s["t"] == "roi3d":
        a = [gen.ref_cid(data, r) for r in s["atts"]]
        return S.RoiSubsetState3d(a[0], a[1], a[2], gen.build_roi(s["roi"]))
    return None


def build_tree(s, data):
    """gen.build_state extended with the extra leaves (composites recurse here)."""
    from glue.core import subset as S
    t = s["t"]
    if t in ("and", "or", "xor"):
        return {"and": S.AndState, "or": S.OrState, "xor": S.XorState}[t](build_tree(s["a"], data), build_tree(s["b"], data))
    if t == "not":
        return S.InvertState(build_tree(s["a"], data))
    if t == "multior":
        return S.MultiOrState([build_tree(c, data) for c in s["states"]])
    extra = build_extra(s, data)
    if extra is not None:
        return extra
    return gen.build_state(s, data)


def tree_strategy(dspec, max_leaves=4):
    leaf = st.one_of(gen.leaf_spec(dspec), gen.leaf_spec(dspec), extra_leaf(dspec))

    def extend(ch):
        return st.one_of(
            st.builds(lambda a, b: {"t": "and", "a": a, "b": b}, ch, ch), st.builds(lambda a, b: {"t": "or", "a": a, "b": b}, ch, ch),
            st.builds(lambda a, b: {"t": "xor", "a": a, "b": b}, ch, ch), st.builds(lambda a: {"t": "not", "a": a}, ch),
            st.builds(lambda s: {"t": "multior", "states": s}, st.lists(ch, min_size=1, max_size=3)))
    return st.recursive(leaf, extend, max_leaves=max_leaves)


def leaf_classes(s):
    t = s["t"]
    if t in ("and", "or", "xor"):
        return leaf_classes(s["a"]) | leaf_classes(s["b"]) | {t}
    if t == "not":
        return leaf_classes(s["a"]) | {t}
    if t == "multior":
        out = {t}
        for c in s["states"]:
            out |= leaf_classes(c)
        return out
    if t == "roi":
        return {"roi:" + s["roi"]["k"] + ("+pretransform" if "pre" in s else "")}
    if t in ("roind", "roi3d"):
        return {t + ":" + s["roi"]["k"]}
    return {gen.leaf_kind(s)}


@st.composite
def session_spec(draw, max_datasets=3, datetime=True, joins=True, links=True):
    nd = draw(st.integers(1, max_datasets))
    datasets = []
    for i in range(nd):
        dspec = draw(gen.data_spec(max_dims=3 if i == 0 else 2, max_side=3, max_comps=3, coords=False, label=draw(st.sampled_from(LABELS))))
        c = draw(st.sampled_from(["none", "none", "identity", "affine"]))
        nd_ = len(dspec["shape"])
        if c == "identity":
            dspec["coords"] = {"kind": "identity"}
        elif c == "affine":
            dspec["coords"] = {"kind": "affine", "matrix": draw(gen.affine_matrix(nd_)),
                               "units": draw(st.sampled_from([None, ["m", "s", "km"][:nd_]])),
                               "labels": draw(st.sampled_from([None, ["Xw", "Yw", "Zw"][:nd_]]))}
        nums = [j for j, cc in enumerate(dspec["comps"]) if cc["kind"] in ("float", "int")]
        dspec["derived"] = []
        if nums and draw(st.booleans()):
            dspec["derived"].append({"src": draw(st.sampled_from(nums)), "k": draw(st.sampled_from([2.0, -1.0, 0.5])), "name": "der"})
        if datetime and len(dspec["shape"]) == 1 and draw(st.integers(0, 3)) == 0:
            dspec["datetime"] = [int(draw(st.integers(0, 5))) for _ in range(dspec["shape"][0])]
        dspec["style"] = draw(style_spec())
        dspec["units"] = [draw(st.sampled_from([None, None, "Jy", "km / s", "m"])) for _ in dspec["comps"]]
        for cc in dspec["comps"]:
            if cc["kind"] == "cat" and draw(st.booleans()):
                present = sorted(set(cc["vals"]))
                order = list(draw(st.permutations(present))) + (["zz"] if draw(st.booleans()) else [])
                cc["categories"] = order
        dspec["meta"] = draw(st.sampled_from([{}, {"origin": "test", "n": 3}, {"k": [1, 2, 3], "unserialisable": "OBJECT"},
                                              # keys and values that contain, or start with, the serialiser's own string marker
                                              {"test__run": "first__pass", "origin": "st__archive", "st__x": "best__fit__st__"}]))
        datasets.append(dspec)
    lks = []
    if links and nd >= 2:
        for _ in range(draw(st.integers(0, 2))):
            a, b = draw(st.integers(0, nd - 1)), draw(st.integers(0, nd - 1))
            if a == b:
                b = (a + 1) % nd
            na = [j for j, cc in enumerate(datasets[a]["comps"]) if cc["kind"] in ("float", "int")]
            nb = [j for j, cc in enumerate(datasets[b]["comps"]) if cc["kind"] in ("float", "int")]
            if not na or not nb:
                continue
            tb = draw(st.sampled_from(nb))
            ta = draw(st.sampled_from(na))
            # each attribute takes part in at most one link: two different routes to one attribute make the value read
            # through links depend on which equal-depth link the link manager happens to pick
            used = [tuple(L[k]) for L in lks for k in ("a", "b", "a2", "b2") if k in L]
            if (a, ta) in used or (b, tb) in used:
                continue
            kind = draw(st.sampled_from(["func", "twoway", "identity", "linksame", "linktwoway", "helper2", "multilink", "mixed"]))
            L = {"kind": kind, "a": [a, ta], "b": [b, tb], "fn": draw(st.sampled_from(sorted(FUNCS)))}
            if kind in ("helper2", "multilink", "mixed"):
                # two attributes on each side
                ra = [x for x in na if x != ta and (a, x) not in used]
                rb = [x for x in nb if x != tb and (b, x) not in used]
                if not ra or not rb:
                    continue
                L["a2"], L["b2"] = [a, ra[0]], [b, rb[0]]
                L["helper"] = draw(st.sampled_from(HELPERS2))
            lks.append(L)
    jns = []
    if joins and nd >= 2:
        one_d = [i for i, d in enumerate(datasets) if len(d["shape"]) == 1]
        if len(one_d) >= 2 and draw(st.integers(0, 3)) > 0:
            a, b = one_d[0], one_d[1]
            jns.append({"a": a, "b": b, "ca": [0], "cb": [0]})
    groups = []
    for _ in range(draw(st.integers(0, 3))):
        groups.append({"label": draw(st.sampled_from(["sel", "Subset 1", "a", "x", "__main__"])), "state": draw(tree_strategy(datasets[0])),
                       "style": draw(style_spec())})
    return {"datasets": datasets, "links": lks, "joins": jns, "groups": groups}


class Unserialisable(object):
    pass


def build_session(spec, plain_subsets=False):
    """spec -> DataCollection (plain_subsets: attach plain Subsets instead of subset groups, for the DataCollection v1 format)"""
    from glue.core import DataCollection
    from glue.core.visual import VisualAttributes
    from glue.core.component_link import ComponentLink
    from glue.core.link_helpers import LinkSame, LinkTwoWay
    datas = []
    for dspec in spec["datasets"]:
        d = gen.build_data(dspec)
        for c, u in zip(d.main_components, dspec.get("units") or []):
            if u is not None:
                d.get_component(c).units = u
        if dspec.get("datetime"):
            d.add_component(np.array(dspec["datetime"], dtype="datetime64[D]"), "when")
        for der in dspec.get("derived", []):
            d.add_component(d.main_components[der["src"]] * der["k"] + 1, der["name"])
        for k, v in dspec["style"].items():
            setattr(d.style, k, v)
        for k, v in dspec.get("meta", {}).items():
            d.meta[k] = Unserialisable() if v == "OBJECT" else v
        datas.append(d)
    dc = DataCollection(datas)
    for L in spec["links"]:
        ca = datas[L["a"][0]].main_components[L["a"][1]]
        cb = datas[L["b"][0]].main_components[L["b"][1]]
        f, g = FUNCS[L["fn"]]
        if L["kind"] == "func":
            dc.add_link(ComponentLink([ca], cb, using=f))
        elif L["kind"] == "twoway":
            dc.add_link(ComponentLink([ca], cb, using=f, inverse=g))
        elif L["kind"] == "identity":
            dc.add_link(ComponentLink([ca], cb))
        elif L["kind"] == "linksame":
            dc.add_link(LinkSame(ca, cb))
        elif L["kind"] == "helper2":
            import glue.plugins.coordinate_helpers.link_helpers as H
            ca2 = datas[L["a2"][0]].main_components[L["a2"][1]]
            cb2 = datas[L["b2"][0]].main_components[L["b2"][1]]
            dc.add_link(getattr(H, L["helper"])(cids1=[ca, ca2], cids2=[cb, cb2]))
        elif L["kind"] == "mixed":
            # a one-input link into dataset b, plus a two-input link whose inputs span both datasets and whose output lies in b
            ca2 = datas[L["a2"][0]].main_components[L["a2"][1]]
            cb2 = datas[L["b2"][0]].main_components[L["b2"][1]]
            dc.add_link(ComponentLink([ca], cb, using=f))
            dc.add_link(ComponentLink([cb, ca2], cb2, using=lf_add))
        elif L["kind"] == "multilink":
            from glue.core.link_helpers import MultiLink
            ca2 = datas[L["a2"][0]].main_components[L["a2"][1]]
            cb2 = datas[L["b2"][0]].main_components[L["b2"][1]]
            dc.add_link(MultiLink(cids1=[ca, ca2], cids2=[cb, cb2], forwards=lf_pair_forwards, backwards=lf_pair_backwards))
        else:
            dc.add_link(LinkTwoWay(ca, cb, f, g))
    for J in spec["joins"]:
        a, b = datas[J["a"]], datas[J["b"]]
        a.join_on_key(b, a.main_components[J["ca"][0]], b.main_components[J["cb"][0]])
    for G in spec["groups"]:
        state = build_tree(G["state"], datas[0])
        if plain_subsets:
            for d in datas:
                s = d.new_subset(label=G["label"])
                s.subset_state = state
                for k, v in G["style"].items():
                    setattr(s.style, k, v)
        else:
            g = dc.new_subset_group(label=G["label"], subset_state=state)
            g.style = VisualAttributes(**G["style"])
    return dc


def tolist(a):
    a = np.asarray(a)
    if a.dtype.kind in "fc":
        return [None if (isinstance(x, float) and x != x) else x for x in a.astype(float).ravel().tolist()]
    if a.dtype.kind == "M":
        return [str(x) for x in a.ravel()]
    return a.ravel().tolist()


def style_of(s):
    return {k: getattr(s, k) for k in ("color", "alpha", "markersize", "linewidth", "marker")}


def json_ok(v):
    import json
    try:
        json.dumps(v)
        return True
    except Exception:
        return False


def observe(dc, fields=None):
    """Canonical, comparable picture of a collection.  fields: optional set restricting what is recorded."""
    from glue.core.exceptions import IncompatibleAttribute
    datas = list(dc)
    want = (lambda f: True) if fields is None else (lambda f: f in fields)
    out = {"datasets": [], "groups": []}
    index = {id(d): i for i, d in enumerate(datas)}
    for d in datas:
        rec = {"label": d.label, "shape": list(d.shape)}
        comps = []
        for c in d.main_components + d.derived_components:
            comp = d.get_component(c)
            kind = "categorical" if comp.categorical else ("datetime" if comp.datetime else ("derived" if c in d.derived_components else "numeric"))
            entry = {"label": c.label, "kind": kind, "values": tolist(d[c]), "units": str(comp.units or "")}
            if comp.categorical:
                entry["categories"] = list(np.asarray(comp.categories).tolist())
            comps.append(entry)
        rec["components"] = comps
        rec["coords"] = type(d.coords).__name__ if d.coords is not None else None
        rec["world"] = [{"label": w.label, "values": tolist(d[w]), "units": d.get_component(w).units} for w in d.world_component_ids]
        if want("style"):
            rec["style"] = style_of(d.style)
        if want("meta"):
            rec["meta"] = {k: v for k, v in d.meta.items() if isinstance(k, str) and json_ok(v)}
        if want("uuid"):
            rec["uuid"] = d.uuid
        if want("links"):
            ext = []
            for c in d.externally_derivable_components:
                if c.parent is d or c.parent is None or id(c.parent) not in index:
                    continue
                try:
                    ext.append((index[id(c.parent)], c.label, tolist(d[c])))
                except Exception as e:  # noqa
                    ext.append((index[id(c.parent)], c.label, "unreadable:" + type(e).__name__))
            rec["linked"] = sorted(ext, key=repr)
        if want("joins"):
            jn = []
            for other, (c1, c2) in d._key_joins.items():
                if id(other) in index:
                    c1 = c1 if isinstance(c1, (tuple, list)) else ("NOT-A-TUPLE", c1)
                    c2 = c2 if isinstance(c2, (tuple, list)) else ("NOT-A-TUPLE", c2)
                    def who(c):
                        # (index of the dataset that owns the attribute, label): the two sides of a join must not be swapped
                        return (index.get(id(getattr(c, "parent", None)), "?"), getattr(c, "label", c))
                    jn.append((index[id(other)], [who(c) for c in c1], [who(c) for c in c2]))
            rec["joins"] = sorted(jn, key=repr)
        out["datasets"].append(rec)
    groups = list(dc.subset_groups)
    if want("groups"):
        for g in groups:
            masks = []
            for d in datas:
                try:
                    masks.append(np.asarray(d.get_mask(g.subset_state)).astype(int).ravel().tolist())
                except IncompatibleAttribute:
                    masks.append("incompatible")
                except Exception as e:  # noqa
                    masks.append("raises:" + type(e).__name__)
            rec = {"label": g.label, "masks": masks}
            if want("style"):
                rec["style"] = style_of(g.style)
            out["groups"].append(rec)
        # per dataset: the subsets it carries (label + mask), so that plain subsets are seen as well
        for d, rec in zip(datas, out["datasets"]):
            subs = []
            for s in d.subsets:
                try:
                    m = np.asarray(s.to_mask()).astype(int).ravel().tolist()
                except IncompatibleAttribute:
                    m = "incompatible"
                except Exception as e:  # noqa
                    m = "raises:" + type(e).__name__
                subs.append((s.label, m))
            rec["subsets"] = subs
    return out


def first_difference(a, b, path=""):
    if type(a) is not type(b) and not (isinstance(a, (list, tuple)) and isinstance(b, (list, tuple))):
        return path, a, b
    if isinstance(a, dict):
        for k in sorted(set(a) | set(b)):
            if k not in a or k not in b:
                return path + "/" + str(k), a.get(k, "<missing>"), b.get(k, "<missing>")
            d = first_difference(a[k], b[k], path + "/" + str(k))
            if d:
                return d
        return None
    if isinstance(a, (list, tuple)):
        if len(a) != len(b):
            return path + "/len", len(a), len(b)
        for i, (x, y) in enumerate(zip(a, b)):
            d = first_difference(x, y, path + "/%d" % i)
            if d:
                return d
        return None
    if isinstance(a, float) and isinstance(b, float):
        return None if (a == b or (a != a and b != b)) else (path, a, b)
    return None if a == b else (path, a, b)
