"""Per-process setup and per-case reset of glue's process-global state (DESIGN 2.6)."""
import gc
import os
import sys
import warnings

_MEMOS = []
_SETUP = False


def process_setup():
    """Import glue from the tree under test, run plugin setup() functions once, collect memo caches."""
    global _SETUP
    if _SETUP:
        return
    warnings.simplefilter("ignore")
    import numpy as np
    np.seterr(all="ignore")
    import logging
    logging.disable(logging.CRITICAL)
    import glue
    root = os.path.realpath(os.environ.get("GLUE_VERIF_ROOT", "/repo"))
    here = os.path.realpath(glue.__file__)
    if not here.startswith(root + os.sep):
        raise RuntimeError("glue imported from %s, expected under %s" % (here, root))
    import glue.core  # noqa
    import glue.core.parse  # noqa
    import glue.core.state  # noqa
    import glue.core.link_helpers  # noqa
    import glue.core.data_derived  # noqa
    import glue.core.fixed_resolution_buffer  # noqa
    import glue.core.roi_pretransforms  # noqa
    for name in ("glue.plugins.coordinate_helpers", "glue.core.data_exporters", "glue.io.formats.fits"):
        try:
            mod = __import__(name, fromlist=["setup"])
            mod.setup()
        except Exception:  # plugin not usable here: the property that needs it will say so
            pass
    collect_memos()
    # everything imported so far is permanent: keep it out of the per-case gc.collect()
    gc.collect()
    gc.freeze()
    _SETUP = True


def collect_memos():
    del _MEMOS[:]
    seen = set()
    for mname, mod in list(sys.modules.items()):
        if not mname.startswith("glue") or mod is None:
            continue
        for cname, cls in list(vars(mod).items()):
            if not isinstance(cls, type):
                continue
            for aname, attr in list(vars(cls).items()):
                memo = getattr(attr, "__memoize_cache", None)
                if isinstance(memo, dict) and id(memo) not in seen:
                    seen.add(id(memo))
                    _MEMOS.append(memo)
    return len(_MEMOS)


def clear_memos():
    for m in _MEMOS:
        m.clear()


def reset_all():
    """Called at the top of every generated case, never in the middle of one."""
    clear_memos()
    try:
        from glue.core.registry import Registry
        Registry().clear()
    except Exception:
        pass
    frb = sys.modules.get("glue.core.fixed_resolution_buffer")
    if frb is not None:
        frb.ARRAY_CACHE.clear()
        frb.PIXEL_CACHE.clear()
    plt = sys.modules.get("matplotlib.pyplot")
    if plt is not None:
        plt.close("all")
    gc.collect()
