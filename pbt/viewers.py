"""Headless application with the four built-in viewers; a thin Application subclass that lists its viewers so that
they are saved and restored (the documented extension point every front-end uses)."""


def viewer_classes():
    from glue.viewers.scatter.viewer import SimpleScatterViewer
    from glue.viewers.histogram.viewer import SimpleHistogramViewer
    from glue.viewers.image.viewer import SimpleImageViewer
    from glue.viewers.profile.viewer import SimpleProfileViewer
    return {"scatter": SimpleScatterViewer, "histogram": SimpleHistogramViewer, "image": SimpleImageViewer, "profile": SimpleProfileViewer}


class _Lazy(dict):
    def __missing__(self, key):
        self.update(viewer_classes())
        return dict.__getitem__(self, key)

    def items(self):
        if not len(self):
            self.update(viewer_classes())
        return dict.items(self)


VIEWERS = _Lazy()


def make_app(data_collection=None):
    from glue.core.application_base import Application

    class HeadlessApp(Application):
        def __init__(self, data_collection=None, session=None):
            super(HeadlessApp, self).__init__(data_collection=data_collection, session=session)
            self._tab = []

        def add_widget(self, viewer, label=None, tab=None):
            self._tab.append(viewer)
            return viewer

        @property
        def viewers(self):
            return [list(self._tab)]

        def new_tab(self):
            pass

        def remove_tab(self, tab):
            pass

        def __gluestate__(self, context):
            state = super(HeadlessApp, self).__gluestate__(context)
            state["viewers"] = [[context.id(v) for v in tab] for tab in self.viewers]
            return state

        @classmethod
        def __setgluestate__(cls, rec, context):
            self = cls(data_collection=context.object(rec["data"]))
            context.register_object(rec["session"], self.session)
            for tab in rec.get("viewers", []):
                for v in tab:
                    self.add_widget(context.object(v))
            return self

    # the class must be importable by name for a session round trip
    HeadlessApp.__module__ = __name__
    HeadlessApp.__qualname__ = "HeadlessApp"
    globals()["HeadlessApp"] = HeadlessApp
    return HeadlessApp(data_collection=data_collection)
