"""C16  A fixed-resolution buffer equals nearest-pixel resampling through the links.

Oracle: own resampler (sample grid -> mapped position -> round -> in bounds ? value : NaN/False;
scalar-bound dimensions dropped).  Cache: every request of a sequence sharing one cache_id must
equal the oracle (and hence the same request without a cache id).
"""
import numpy as np
from hypothesis import strategies as st

from .. import gen
from ..common import Check, Mismatch, blame

PROPERTY = "C16"
RULE = ("reference dataset R (2-3 dims) and 1-2 source datasets S (1-3 dims) linked pixel-to-pixel by S.pix_j = a_j * R.pix_pi(j) + b_j "
        "(injective axis map pi, a in {1,2,0.5,-1}, b = k+0.3); bounds per R dimension scalar or (lo, hi, n), partly/wholly outside; "
        "value and mask requests; broadcast on/off; sequences of 2-8 requests sharing one cache_id that vary bounds (often only a scalar "
        "bound), attribute, selection and source dataset, plus R read in its own frame; in half of the sequences the cached requests pass one bounds list edited in place. Oracle: own nearest-pixel resampler; samples "
        "whose mapped position is within 1e-9 of a half-integer are not compared. Non-trivial = partly-outside bounds with a permuted or "
        "scaled axis map, or a sequence whose consecutive requests differ only in a scalar bound / attribute / selection / dataset; "
        "distinct by spec hash.")
ASSUMPTIONS = [
    "data are fixed within a sequence (the statement says 'for unchanged data'); in a third of the sequences the links are replaced once (set_links, delayed remove+add, or one by one) by links between the same attributes with other offsets - later requests are read without a cache id and under a new one; module caches are cleared at the top of every case",
    "a ranged R dimension that reaches no S dimension is broadcast (broadcast=True); with broadcast=False an IncompatibleDataException is accepted, and so is the correct broadcast buffer (the dependency analysis is allowed to be conservative for coupled axes); an exception when the dimension does reach S is a violation",
    "astropy WCS-linked datasets are out of scope; links are exact affine pixel maps",
]


def mk_map(a, b):
    def f(x):
        return a * x + b
    return f


def build(spec):
    from glue.core import Data, DataCollection
    from glue.core.component_link import ComponentLink
    rshape = tuple(spec["rshape"])
    R = Data(label="R", r=np.arange(int(np.prod(rshape)), dtype=float).reshape(rshape) + 100)
    if spec.get("rcoords"):
        R.coords = gen.build_coords({"kind": "affine", "matrix": spec["rcoords"]}, len(rshape))
    dc = DataCollection([R])
    sources = []
    for k, ss in enumerate(spec["sources"]):
        shp = tuple(ss["shape"])
        n = int(np.prod(shp))
        S = Data(label="S%d" % k, v=(np.arange(n, dtype=float) * (k + 1)).reshape(shp), w=(np.arange(n, dtype=float)[::-1] + 0.5).reshape(shp))
        dc.append(S)
        sources.append(S)
    dc.add_link(make_links(spec, R, sources))
    return R, sources, dc


def make_links(spec, R, sources):
    from glue.core.component_link import ComponentLink
    links = []
    for S, ss in zip(sources, spec["sources"]):
        for j in range(len(ss["shape"])):
            a, b, pj = ss["a"][j], ss["b"][j], ss["pi"][j]
            src = R.world_component_ids[pj] if (ss.get("via_world") and spec.get("rcoords")) else R.pixel_component_ids[pj]
            links.append(ComponentLink([src], S.pixel_component_ids[j], using=mk_map(a, b)))
    return links


def sample_grid(bounds):
    coords = [np.linspace(*b) if isinstance(b, tuple) else np.array(b, dtype=float) for b in bounds]
    return np.meshgrid(*coords, indexing="ij", copy=False)


def oracle(spec, req, R, sources):
    """returns (expected array or 'incompatible', comparable mask)"""
    bounds = [tuple(b) if isinstance(b, list) else b for b in req["bounds"]]
    grid = sample_grid(bounds)
    shape = grid[0].shape
    if req["src"] < 0:
        data = R
        maps = [(1.0, 0.0, j) for j in range(R.ndim)]
    else:
        data = sources[req["src"]]
        ss = spec["sources"][req["src"]]
        maps = [(ss["a"][j], ss["b"][j], ss["pi"][j]) for j in range(data.ndim)]
    via_world = req["src"] >= 0 and bool(spec.get("rcoords")) and bool(spec["sources"][req["src"]].get("via_world"))
    nr = len(bounds)
    if via_world:
        M = np.array(spec["rcoords"], dtype=float)
        # numpy axis i of R <-> matrix row/column nr-1-i
        def world_of(axis):
            row = nr - 1 - axis
            w = np.zeros(shape) + M[row][nr]
            for c in range(nr):
                w = w + M[row][c] * grid[nr - 1 - c]
            return w
        def axes_of(axis):
            row = nr - 1 - axis
            return {nr - 1 - c for c in range(nr) if M[row][c] != 0}
        used = set()
        for m in maps:
            used |= axes_of(m[2])
    else:
        used = {m[2] for m in maps}
    if req["src"] >= 0 and not req["broadcast"]:
        for i, b in enumerate(bounds):
            if isinstance(b, tuple) and i not in used:
                return "incompatible", None
    valid = np.ones(shape, dtype=bool)
    sure = np.ones(shape, dtype=bool)
    idx = []
    for j, (a, b, pj) in enumerate(maps):
        pos = a * (world_of(pj) if via_world else grid[pj]) + b
        frac = np.abs(pos - np.floor(pos) - 0.5)
        sure &= frac > 1e-9
        k = np.round(pos).astype(int)
        ok = (k >= 0) & (k < data.shape[j])
        valid &= ok
        idx.append(np.where(ok, k, 0))
    if req["kind"] == "values":
        full = np.asarray(data[data.id[req["att"]]], dtype=float)
        out = np.where(valid, full[tuple(idx)], np.nan)
    else:
        full = np.asarray(data[data.id["v"]], dtype=float) > req["thr"]
        out = np.where(valid, full[tuple(idx)], False)
    out = np.broadcast_to(out, shape)
    sure = np.broadcast_to(sure, shape)
    sl = tuple(slice(None) if isinstance(b, tuple) else 0 for b in bounds)
    return out[sl], sure[sl]


def run_request(req, R, sources, cache_id, shared=None):
    from glue.core.fixed_resolution_buffer import compute_fixed_resolution_buffer
    data = R if req["src"] < 0 else sources[req["src"]]
    bounds = [tuple(b) if isinstance(b, list) else b for b in req["bounds"]]
    if shared is not None:
        # a caller that keeps one list of bounds and edits it in place between requests (stepping through a cube, panning)
        shared[:] = bounds
        bounds = shared
    kw = {}
    if req["kind"] == "values":
        kw["target_cid"] = data.id[req["att"]]
    else:
        kw["subset_state"] = req["_state"]
    return compute_fixed_resolution_buffer(data, bounds, target_data=R, broadcast=req["broadcast"], cache_id=cache_id, **kw)


def compare(got, exp, sure, sig, detail):
    got = np.asarray(got)
    if got.shape != exp.shape:
        raise Mismatch(sig + "/shape", dict(detail, got=list(got.shape), expected=list(exp.shape)))
    if exp.dtype == bool:
        bad = sure & (got.astype(bool) != exp)
    else:
        g = got.astype(float)
        bad = sure & ~((g == exp) | (np.isnan(g) & np.isnan(exp)))
    if bad.any():
        raise Mismatch(sig + "/values", dict(detail, n_bad=int(bad.sum()), got=np.asarray(got).tolist(), expected=np.asarray(exp).tolist()))


def fn_sequence(spec, rec):
    from glue.core.exceptions import IncompatibleDataException
    R, sources, dc = build(spec)
    states = {}
    nontriv = False
    prev = None
    cache_name = "shared-id"
    shared_bounds = [] if spec.get("reuse_bounds_list") else None
    relinked = False
    for k, req in enumerate(spec["requests"]):
        rl = spec.get("relink")
        if rl and rl["after"] == k and not relinked:
            # the links between the same attributes are replaced by links with other offsets; what is read afterwards (without a
            # cache id, and under a new one) must follow the links now in force
            old = list(dc.external_links)
            spec = dict(spec, sources=[dict(ss, b=[bb + d for bb, d in zip(ss["b"], (rl["shift"] * 3)[:len(ss["b"])])]) for ss in spec["sources"]])
            new = make_links(spec, R, sources)
            if rl["how"] == 0:
                dc.set_links(new)
            elif rl["how"] == 1:
                with dc.delay_link_manager_update():
                    dc.remove_link(old)
                    dc.add_link(new)
            else:
                for l in old:
                    dc.remove_link(l)
                for l in new:
                    dc.add_link(l)
            relinked = True
            cache_name = "shared-id-after-relink"
            rec.label("relinked:" + ["set_links", "delayed", "one-by-one"][rl["how"]])
        req = dict(req)
        if req["kind"] == "mask" and req["src"] < 0:
            req["kind"] = "values"       # R has no 'v'; read its own attribute instead
            req["att"] = "r"
        if req["kind"] == "mask":
            data = sources[req["src"]]
            key = (req["src"], req["thr"])
            if key not in states:
                states[key] = data.id["v"] > req["thr"]
            req["_state"] = states[key]
            if req["src"] < 0:
                req["kind"] = "values"       # R has no 'v'; read its own attribute instead
                req["att"] = "r"
        if req["src"] < 0 and req["kind"] == "values":
            req["att"] = "r"
        exp, sure = oracle(spec, req, R, sources)
        for cache_id, tag in ((None, "uncached"), (cache_name, "cached")):
            if cache_id is None and not spec["also_uncached"] and not relinked:
                continue
            if relinked:
                tag += "/after-relink"
            detail = {"request": k, "mode": tag, "req": {x: y for x, y in req.items() if x != "_state"}}
            try:
                got = run_request(req, R, sources, cache_id, shared_bounds if cache_id is not None else None)
            except IncompatibleDataException:
                if isinstance(exp, str):
                    continue
                raise Mismatch("raises-IncompatibleDataException-although-resamplable/" + tag, detail)
            except Exception as e:  # noqa
                if blame(e)[0] != "glue":
                    raise
                raise Mismatch("frb-raises/%s/%s" % (type(e).__name__, tag), dict(detail, exc=repr(e)))
            if isinstance(exp, str):
                # the dependency analysis may be conservative (coupled coordinate axes are treated as one block), in which
                # case no exception is raised; the buffer must then still be the correct (broadcast) resampling
                exp_b, sure_b = oracle(spec, dict(req, broadcast=True), R, sources)
                compare(got, exp_b, sure_b, "frb-differs-from-nearest-pixel-resampling/%s/%s/broadcast-off-not-raised" % (req["kind"], tag), detail)
                rec.label("broadcast-off-not-raised(conservative-dependency)")
                continue
            compare(got, exp, sure, "frb-differs-from-nearest-pixel-resampling/%s/%s" % (req["kind"], tag), detail)
        if prev is not None:
            diff = [x for x in ("bounds", "att", "kind", "src", "thr", "broadcast") if prev.get(x) != req.get(x)]
            if diff and (diff != ["bounds"] or all(isinstance(a, list) == isinstance(b, list) and (isinstance(a, list) and a == b or not isinstance(a, list))
                                                    for a, b in zip(prev["bounds"], req["bounds"]))):
                nontriv = True
        prev = {x: y for x, y in req.items() if x != "_state"}
        if not isinstance(exp, str) and exp.size and exp.dtype != bool and np.isnan(exp).any() and not np.isnan(exp).all():
            if any(s["pi"] != sorted(s["pi"]) or any(a != 1.0 for a in s["a"]) for s in spec["sources"]):
                nontriv = True
    rec.nt(nontriv)
    rec.label("nreq:%d" % min(len(spec["requests"]), 8), "nsources:%d" % len(spec["sources"]))


# --------------------------------------------------------------------------- viewer level: image layer states

def fn_image_layer(spec, rec):
    """ImageLayerState / ImageSubsetLayerState.get_sliced_data for generated axes, slices and views."""
    from glue.core import Data, DataCollection
    from glue.core.component_link import ComponentLink
    from glue.viewers.image.state import ImageViewerState, ImageLayerState, ImageSubsetLayerState
    shape = tuple(spec["shape"])
    nd = len(shape)
    ref = Data(label="ref", v=np.arange(int(np.prod(shape)), dtype=float).reshape(shape))
    dc = DataCollection([ref])
    other = None
    if spec["other"]:
        oshape = tuple(max(1, s - o) for s, o in zip(shape, spec["other"]["shrink"]))
        other = Data(label="other", w=np.arange(int(np.prod(oshape)), dtype=float).reshape(oshape) * 10)
        dc.append(other)
        for j in range(nd):
            dc.add_link(ComponentLink([ref.pixel_component_ids[j]], other.pixel_component_ids[j], using=mk_map(1.0, -float(spec["other"]["offset"][j]))))
    thr = spec["thr"]
    dc.new_subset_group(subset_state=ref.id["v"] > thr)
    vs = ImageViewerState()
    layers = []
    ls = ImageLayerState(layer=ref, viewer_state=vs)
    vs.layers.append(ls)
    layers.append(("ref-values", ls))
    ss = ImageSubsetLayerState(layer=ref.subsets[0], viewer_state=vs)
    vs.layers.append(ss)
    layers.append(("ref-subset", ss))
    if other is not None:
        lo = ImageLayerState(layer=other, viewer_state=vs)
        vs.layers.append(lo)
        layers.append(("other-values", lo))
    if vs.reference_data is not ref:
        raise Mismatch("image-state/reference-data-not-first-dataset", None)
    seen = []
    for k, step in enumerate(spec["steps"]):
        xa, ya = step["x"] % nd, step["y"] % nd
        if xa == ya:
            ya = (xa + 1) % nd
        vs.x_att = ref.pixel_component_ids[xa]
        if vs.y_att is not ref.pixel_component_ids[ya]:
            vs.y_att = ref.pixel_component_ids[ya]
        xa, ya = vs.x_att.axis, vs.y_att.axis
        if vs.x_att is vs.y_att:
            raise Mismatch("image-state/axes-not-distinct", {"step": k})
        sl = tuple(int(v) % shape[i] for i, v in enumerate(step["slices"][:nd]))
        vs.slices = sl
        view = None
        if step["view"] is not None:
            view = [slice(*step["view"][0]), slice(*step["view"][1])]
        for name, layer in layers:
            try:
                got = np.asarray(layer.get_sliced_data(view=view))
            except Exception as e:  # noqa
                if blame(e)[0] != "glue":
                    raise
                raise Mismatch("image-state/get_sliced_data-raises/%s/%s" % (name, type(e).__name__), {"step": k, "exc": repr(e)})
            ny, nx = shape[ya], shape[xa]
            exp = np.zeros((ny, nx), dtype=float)
            for iy in range(ny):
                for ix in range(nx):
                    idx = list(sl)
                    idx[ya], idx[xa] = iy, ix
                    if name == "ref-values":
                        exp[iy, ix] = ref["v"][tuple(idx)]
                    elif name == "ref-subset":
                        exp[iy, ix] = ref["v"][tuple(idx)] > thr
                    else:
                        oidx = [i - o for i, o in zip(idx, spec["other"]["offset"])]
                        if all(0 <= a < b for a, b in zip(oidx, other.shape)):
                            exp[iy, ix] = other["w"][tuple(oidx)]
                        else:
                            exp[iy, ix] = np.nan
            if view is not None:
                exp = exp[view[0], view[1]]
            g = got.astype(float)
            if g.shape != exp.shape:
                raise Mismatch("image-state/sliced-data-shape/" + name, {"step": k, "got": list(g.shape), "expected": list(exp.shape), "x": xa, "y": ya})
            if not np.all((g == exp) | (np.isnan(g) & np.isnan(exp))):
                raise Mismatch("image-state/sliced-data-values/" + name, {"step": k, "x": xa, "y": ya, "slices": list(sl), "got": g.tolist(), "expected": exp.tolist()})
        seen.append((xa, ya, sl))
    rec.nt(len(set(seen)) >= 2 and nd >= 3)
    rec.label("ndim:%d" % nd, "layers:%d" % len(layers))


@st.composite
def image_cases(draw):
    shape = draw(gen.shapes(2, 3, 4, 2))
    nd = len(shape)
    other = None
    if draw(st.booleans()):
        other = {"shrink": [draw(st.integers(0, 1)) for _ in range(nd)], "offset": [draw(st.integers(-1, 1)) for _ in range(nd)]}
    steps = []
    for _ in range(draw(st.integers(1, 5))):
        view = None
        if draw(st.booleans()):
            view = [[draw(st.integers(0, 1)), draw(st.sampled_from([None, 2, 3])), draw(st.sampled_from([None, 1, 2]))],
                    [draw(st.integers(0, 1)), draw(st.sampled_from([None, 2, 3, 4])), draw(st.sampled_from([None, 1, 2]))]]
        steps.append({"x": draw(st.integers(0, 2)), "y": draw(st.integers(0, 2)), "slices": [draw(st.integers(0, 3)) for _ in range(3)], "view": view})
    return {"shape": shape, "other": other, "thr": float(draw(st.integers(0, 12))), "steps": steps}


# --------------------------------------------------------------------------- generator

@st.composite
def bound(draw, n):
    if draw(st.integers(0, 2)) == 0:
        return float(draw(st.integers(-1, n)))
    lo = draw(st.integers(-2, n))
    hi = lo + draw(st.integers(0, n + 2))
    steps = draw(st.integers(1, 6))
    if draw(st.booleans()):
        return [float(lo), float(hi), steps]
    return [lo - 0.5, hi + 0.5, steps]


@st.composite
def cases(draw):
    rshape = draw(gen.shapes(2, 3, 4, 2))
    nr = len(rshape)
    sources = []
    for _ in range(draw(st.integers(1, 2))):
        nd = draw(st.integers(1, nr))
        pi = list(draw(st.permutations(range(nr))))[:nd]
        shape = [draw(st.integers(1, 5)) for _ in range(nd)]
        a = [draw(st.sampled_from([1.0, 1.0, 2.0, 0.5, -1.0])) for _ in range(nd)]
        b = [draw(st.integers(-2, 3)) + 0.3 for _ in range(nd)]
        sources.append({"shape": shape, "pi": pi, "a": a, "b": b, "via_world": draw(st.booleans())})
    nreq = draw(st.integers(1, 8))
    reqs = []
    base = [draw(bound(rshape[i])) for i in range(nr)]
    for k in range(nreq):
        mode = draw(st.integers(0, 5))
        bounds = list(base)
        if mode == 0:
            bounds = [draw(bound(rshape[i])) for i in range(nr)]
            base = bounds
        elif mode == 2:
            # one dimension switches between a scalar and a ranged bound, everything else stays (slab <-> plane)
            i = draw(st.integers(0, nr - 1))
            if isinstance(bounds[i], list):
                bounds[i] = float(draw(st.integers(-1, rshape[i])))
            else:
                lo = draw(st.integers(-1, rshape[i] - 1))
                bounds[i] = [float(lo), float(lo + draw(st.integers(0, 3))), draw(st.integers(1, 4))]
            base = bounds
        elif mode == 1:
            # change one scalar bound only (slicing through a cube)
            scal = [i for i, b in enumerate(bounds) if not isinstance(b, list)]
            if scal:
                i = draw(st.sampled_from(scal))
                bounds[i] = float(draw(st.integers(-1, rshape[i])))
                base = bounds
        reqs.append({"bounds": bounds, "src": draw(st.integers(-1, len(sources) - 1)) if draw(st.integers(0, 3)) else draw(st.integers(0, len(sources) - 1)),
                     "kind": draw(st.sampled_from(["values", "values", "mask"])), "att": draw(st.sampled_from(["v", "w"])),
                     "thr": float(draw(st.integers(0, 6))), "broadcast": draw(st.sampled_from([True, True, True, False]))})
    rcoords = None
    kind = draw(st.sampled_from(["none", "diagonal", "shear"]))
    if kind != "none":
        rcoords = [[0.0] * (nr + 1) for _ in range(nr + 1)]
        rcoords[nr][nr] = 1.0
        for i in range(nr):
            rcoords[i][i] = draw(st.sampled_from([1.0, 2.0, 0.5, -1.0]))
            rcoords[i][nr] = float(draw(st.integers(-2, 2)))
        if kind == "shear":
            i, j = draw(st.sampled_from([(0, 1), (1, 0)] + ([(1, 2), (0, 2)] if nr == 3 else [])))
            rcoords[i][j] = draw(st.sampled_from([1.0, -1.0, 0.5]))
    relink = None
    if nreq >= 2 and draw(st.integers(0, 2)) == 0:
        relink = {"after": draw(st.integers(1, nreq - 1)), "shift": [float(draw(st.sampled_from([1, 2, -1]))), float(draw(st.sampled_from([0, 1, -2]))), 1.0],
                  "how": draw(st.integers(0, 2))}
    return {"rshape": rshape, "rcoords": rcoords, "sources": sources, "requests": reqs, "also_uncached": draw(st.booleans()), "relink": relink,
            "reuse_bounds_list": draw(st.booleans())}


def checks(tier):
    n = {"quick": 5000, "thorough": 50000}.get(tier, 10)
    m = {"quick": 800, "thorough": 8000}.get(tier, 10)
    return [Check("request_sequences", fn_sequence, strategy=cases(), examples=n),
            Check("image_layer_state", fn_image_layer, strategy=image_cases(), examples=m)]
