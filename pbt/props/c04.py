"""C04  Views of masks and attribute values equal the same view of the full array.

Oracle: "index the full result": data[cid, view] == data[cid][view] and
data.get_mask(state, view) == data.get_mask(fresh state)[view]; IndexedData results equal
the parent's results indexed by the translated tuple.
"""
import numpy as np
from hypothesis import strategies as st

from .. import gen
from ..common import Check, Mismatch, blame

PROPERTY = "C04"
RULE = ("(a) data spec (1-3 dims; float/int/categorical; identity/affine coordinates) x attribute (stored, categorical, derived, linked "
        "from a second dataset, pixel, world) x view (None, Ellipsis, bare slice, tuples of positive-step slices possibly shorter than "
        "ndim, mixed integers and slices, tuples of integer index arrays, boolean masks); (b) same x selection (every leaf kind, "
        "depth<=2 composites); (c) IndexedData over 2-4-d parents with full-length tuple views, statistics, histograms, before and after "
        "an index change; (d) a selection defined on dataset A (slice, mask, pixel inequality / range / rectangle) evaluated with a view on "
        "a dataset B whose pixel axes are linked one-to-one to A's in a generated order, B possibly larger than A. Oracle: index the "
        "full result (and for (d) the full mask equals A's mask on the permuted grid). Non-trivial = view selects a proper non-empty subarray (masks: full mask not "
        "constant); distinct by spec hash.")
ASSUMPTIONS = [
    "all-integer views (0-d results) are outside 'mixed integers and slices'; they are generated as a counted, unasserted class",
    "an attribute or selection whose *full* evaluation raises cannot serve as its own oracle and is skipped (counted)",
    "IndexedData documents full-length tuple views only",
]


VIEW_KINDS = ("none", "ellipsis", "single", "tuple", "short", "mixed", "fancy", "bool")


def same(a, b):
    a, b = np.asarray(a), np.asarray(b)
    if a.shape != b.shape:
        return "shape"
    if a.dtype.kind in "US" or b.dtype.kind in "US":
        return None if np.array_equal(a.astype(str), b.astype(str)) else "values"
    if a.dtype.kind != b.dtype.kind and not (a.dtype.kind in "iuf" and b.dtype.kind in "iuf"):
        return "dtype"
    return None if gen.eq_nan(a, b) else "values"


def build_world(spec):
    """data (+ optional derived, + optional second dataset with a link) -> (data, {name: cid})"""
    from glue.core import Data, DataCollection
    from glue.core.component_link import ComponentLink
    d = gen.build_data(spec["data"])
    targets = {}
    for i, c in enumerate(spec["data"]["comps"]):
        targets["stored:%s:%d" % (c["kind"], i)] = d.main_components[i]
    for i, p in enumerate(d.pixel_component_ids):
        targets["pixel:%d" % i] = p
    for i, w in enumerate(d.world_component_ids):
        targets["world:%d" % i] = w
    nums = [d.main_components[i] for i, c in enumerate(spec["data"]["comps"]) if c["kind"] != "cat"]
    src = nums[0] if nums else d.pixel_component_ids[0]
    if spec.get("derived"):
        kind = spec["derived"]
        if kind == "binary":
            d.add_component(src * 2 + d.pixel_component_ids[-1], "der")
        elif kind == "scalar-first":
            d.add_component(3 - src, "der")
        else:
            d.add_component(d.pixel_component_ids[0] * d.pixel_component_ids[-1], "der")
        targets["derived:" + kind] = d.id["der"]
    dc = DataCollection([d])
    if spec.get("linked"):
        d2 = Data(label="other", q=np.arange(int(np.prod(d.shape)), dtype=float).reshape(d.shape))
        dc.append(d2)
        if spec["linked"] == "identity":
            dc.add_link(ComponentLink([src], d2.id["q"]))
        else:
            dc.add_link(ComponentLink([src, d.pixel_component_ids[0]], d2.id["q"], using=_affine2))
        targets["linked:" + spec["linked"]] = d2.id["q"]
    return d, dc, targets


def _affine2(a, b):
    return 2 * a - b


def fn_attr(spec, rec):
    d, dc, targets = build_world(spec)
    vs = spec["view"]
    view = gen.build_view(vs, d.shape)
    names = sorted(targets)
    name = names[spec["target"] % len(names)]
    cid = targets[name]
    kind = name.split(":")[0]
    try:
        full = d[cid]
    except Exception as e:  # noqa
        if blame(e)[0] == "glue":
            rec.label("full-read-raises:" + kind)
            return
        raise
    expected = np.asarray(full) if view is None else np.asarray(full)[view]
    got = d[cid, view]
    why = same(got, expected)
    if why:
        raise Mismatch("attr-view/%s/%s/%s" % (kind, vs[0], why),
                       {"got_shape": list(np.shape(got)), "expected_shape": list(expected.shape), "got": np.asarray(got).tolist()[:20]})
    # categorical: the codes of the view are the view of the codes
    from glue.utils.array import categorical_ndarray
    if isinstance(full, categorical_ndarray):
        exp_codes = full.codes if view is None else full.codes[view]
        if not isinstance(got, categorical_ndarray):
            raise Mismatch("attr-view/categorical/not-categorical", str(type(got)))
        if same(got.codes, exp_codes):
            raise Mismatch("attr-view/categorical/codes", {"got": np.asarray(got.codes).tolist(), "expected": np.asarray(exp_codes).tolist()})
    # get_data and the component's own __getitem__ agree with __getitem__
    why = same(d.get_data(cid, view=view), expected)
    if why:
        raise Mismatch("attr-view/get_data/%s/%s" % (kind, why), None)
    rec.nt(gen.view_is_proper(vs, d.shape))
    rec.label("attr:" + kind, "view:" + vs[0], "ndim:%d" % d.ndim)
    if expected.size == 0:
        rec.label("empty-view")


def fn_mask(spec, rec):
    d = gen.build_data(spec["data"])
    vs = spec["view"]
    view = gen.build_view(vs, d.shape)
    tspec = spec["tree"]
    try:
        full = d.get_mask(gen.build_state(tspec, d))
    except Exception as e:  # noqa
        if blame(e)[0] == "glue":
            rec.label("full-mask-raises")
            return
        raise
    full = np.asarray(full)
    if full.shape != tuple(d.shape):
        raise Mismatch("full-mask-shape/" + gen.leaf_kind(gen.tree_leaves(tspec)[0]), {"got": list(full.shape), "expected": list(d.shape)})
    expected = full if view is None else full[view]
    state = gen.build_state(tspec, d)
    order = spec.get("order", 0)
    if order == 1:
        d.get_mask(state)           # full first, then view, on the same object
    got = np.asarray(d.get_mask(state, view))
    kinds = sorted({gen.leaf_kind(l) for l in gen.tree_leaves(tspec)})
    tag = kinds[0] if len(kinds) == 1 else "composite"
    if got.shape != expected.shape:
        raise Mismatch("mask-view/%s/%s/shape" % (tag, vs[0]), {"got": list(got.shape), "expected": list(expected.shape)})
    if not np.array_equal(got.astype(bool), expected.astype(bool)):
        raise Mismatch("mask-view/%s/%s/values" % (tag, vs[0]), {"got": got.astype(int).tolist(), "expected": expected.astype(int).tolist()})
    if got.dtype != bool:
        raise Mismatch("mask-view/%s/%s/dtype" % (tag, vs[0]), str(got.dtype))
    # subset API: Subset.to_mask(view)
    sub = d.new_subset()
    sub.subset_state = gen.build_state(tspec, d)
    got2 = np.asarray(sub.to_mask(view))
    if got2.shape != expected.shape or not np.array_equal(got2.astype(bool), expected):
        raise Mismatch("subset-to_mask-view/%s/%s" % (tag, vs[0]), None)
    rec.nt(gen.view_is_proper(vs, d.shape) and full.any() and not full.all())
    rec.label("view:" + vs[0], "ndim:%d" % d.ndim)
    for k in kinds:
        rec.label("leaf:" + k)
    if expected.size == 0:
        rec.label("empty-view")


def fn_scalar_views(spec, rec):
    """Counted, unasserted class: all-integer views (0-d results).  Outcomes are recorded, never a verdict."""
    d = gen.build_data(spec["data"])
    idx = tuple(i % s for i, s in zip(spec["idx"], d.shape))
    tspec = spec["tree"]
    try:
        full = np.asarray(d.get_mask(gen.build_state(tspec, d)))
        got = d.get_mask(gen.build_state(tspec, d), idx)
        ok = bool(got) == bool(full[idx])
        rec.label("scalar-view:" + ("agrees" if ok else "DISAGREES:" + gen.leaf_kind(gen.tree_leaves(tspec)[0])))
    except Exception as e:  # noqa
        if blame(e)[0] != "glue":
            raise
        rec.label("scalar-view:raises:" + gen.leaf_kind(gen.tree_leaves(tspec)[0]))
    rec.nt(True)


# --------------------------------------------------------------------------- SliceSubsetState x view, exhaustive in 1-d

def slice_blocks(tier):
    Lmax = 6 if tier == "thorough" else 5
    for L in range(1, Lmax + 1):
        vals = [None] + list(range(-L - 1, L + 2))
        for a in vals:
            for b in vals:
                for c in (None, 1, 2, 3):
                    yield {"k": "block", "L": L, "slice": [a, b, c]}


def fn_slice_enum(spec, rec):
    from glue.core import Data
    from glue.core.subset import SliceSubsetState
    L = spec["L"]
    d = Data(x=np.arange(L, dtype=float))
    st_ = SliceSubsetState(d, [slice(*spec["slice"])])
    full = np.zeros(L, dtype=bool)
    full[slice(*spec["slice"])] = True
    got_full = np.asarray(d.get_mask(st_))
    if not np.array_equal(got_full, full):
        raise Mismatch("slice-state/full-mask", {"got": got_full.astype(int).tolist(), "expected": full.astype(int).tolist()})
    if spec["k"] == "one":
        views = [spec["view"]]
    else:
        vals = [None] + list(range(-L - 1, L + 2))
        views = [["i", i] for i in range(-L, L)] + [["s", a, b, c] for a in vals for b in vals for c in (None, 1, 2, 3)]
    ev = nt = 0
    for v in views:
        item = gen._item(v)
        for wrap in (False, True):
            view = (item,) if wrap else item
            exp = full[view]
            got = np.asarray(d.get_mask(st_, view))
            if got.shape != exp.shape or not np.array_equal(got.astype(bool), exp):
                raise Mismatch("slice-state/view/%s" % ("int" if v[0] == "i" else "slice"),
                               {"got": got.astype(int).tolist(), "expected": exp.astype(int).tolist()},
                               {"k": "one", "L": L, "slice": spec["slice"], "view": v})
            ev += 1
            nt += bool(full.any() and not full.all() and np.size(exp) < L)
    if spec["k"] == "one":
        rec.nt(nt > 0)
    else:
        rec.bulk(ev, nt)


@st.composite
def slice_nd_cases(draw):
    shape = draw(gen.shapes(2, 3, 6, 2))
    n = int(np.prod(shape))
    dspec = {"label": "d", "shape": shape, "coords": None, "comps": [{"name": "a", "kind": "int", "vals": list(range(n))}]}
    tree = {"t": "slice", "slices": [draw(gen.slice_spec(shape[i]))[1:] for i in range(draw(st.integers(1, len(shape))))]}
    return {"data": dspec, "view": draw(gen.view_spec(shape, ("tuple", "short", "mixed", "mixed", "single", "fancy", "bool"))), "tree": tree,
            "order": draw(st.integers(0, 1))}


@st.composite
def pixel_roi_cases(draw):
    shape = draw(gen.shapes(1, 3, 4, 1))
    n = int(np.prod(shape))
    nd = len(shape)
    dspec = {"label": "d", "shape": shape, "coords": draw(st.sampled_from([None, {"kind": "identity"}])),
             "comps": [{"name": "a", "kind": "int", "vals": list(range(n))}]}
    x, y = draw(st.integers(0, nd - 1)), draw(st.integers(0, nd - 1))
    roi = draw(gen.roi2d_spec(kinds=("rect", "circ", "poly", "xrange", "yrange", "ellipse"), rotated=False))
    tree = {"t": "roi", "x": ["p", x], "y": ["p", y], "roi": roi}
    if draw(st.integers(0, 3)) == 0:
        tree = {"t": draw(st.sampled_from(["and", "or", "xor"])), "a": tree, "b": {"t": "ineq", "att": ["c", 0], "op": "gt", "val": float(n // 2)}}
    return {"data": dspec, "view": draw(gen.view_spec(shape, VIEW_KINDS)), "tree": tree, "order": draw(st.integers(0, 1))}


# --------------------------------------------------------------------------- IndexedData

def fn_indexed(spec, rec):
    from glue.core.data_derived import IndexedData
    parent = gen.build_data(spec["data"])
    shape = parent.shape
    neg = list(spec.get("neg") or []) + [False] * len(shape)      # an index may be given counting from the end (-1 = last plane)
    indices = tuple(None if i is None else (i % s - s if n else i % s) for i, s, n in zip(spec["indices"], shape, neg))
    idata = IndexedData(parent, indices)
    rounds = [indices]
    if spec.get("indices2") is not None:
        rounds.append(tuple(None if a is None else (b % s - s if n else b % s) for a, b, s, n in zip(indices, spec["indices2"], shape, neg[::-1])))
    for rnd, ind in enumerate(rounds):
        if rnd:
            idata.indices = ind
        pv = tuple(slice(None) if i is None else i for i in ind)
        rshape = tuple(s for s, i in zip(shape, ind) if i is None)
        if tuple(idata.shape) != rshape:
            raise Mismatch("indexed/shape", {"got": list(idata.shape), "expected": list(rshape)})
        # full-length tuple view of the reduced dataset
        vitems = [gen._item(["s"] + list(v)) for v in spec["view"][:len(rshape)]]
        while len(vitems) < len(rshape):
            vitems.append(slice(None))
        view = tuple(vitems) if spec.get("use_view") else None
        for ci, cid in enumerate(idata.main_components):
            pfull = np.asarray(parent[parent.main_components[ci]])[pv]
            exp = pfull if view is None else pfull[view]
            got = idata.get_data(cid, view=view)
            why = same(got, exp)
            if why:
                raise Mismatch("indexed/get_data/" + why, {"indices": list(ind), "round": rnd})
        for ax, pc in enumerate(idata.pixel_component_ids):
            grid = np.meshgrid(*[np.arange(s, dtype=float) for s in rshape], indexing="ij")[ax] if rshape else np.array(0.0)
            exp = grid if view is None else grid[view]
            why = same(idata.get_data(pc, view=view), exp)
            if why:
                raise Mismatch("indexed/pixel/" + why, {"indices": list(ind), "axis": ax})
        # masks
        state = gen.build_state(spec["tree"], parent)
        try:
            pm = np.asarray(parent.get_mask(gen.build_state(spec["tree"], parent)))[pv]
        except Exception as e:  # noqa
            if blame(e)[0] == "glue":
                rec.label("parent-mask-raises")
                pm = None
            else:
                raise
        if pm is not None:
            exp = pm if view is None else pm[view]
            got = np.asarray(idata.get_mask(state, view=view))
            if got.shape != exp.shape or not np.array_equal(got.astype(bool), exp):
                raise Mismatch("indexed/get_mask", {"indices": list(ind), "round": rnd, "got": got.astype(int).tolist(), "expected": exp.astype(int).tolist()})
        # statistics of numeric components (no subset / subset; axis None / int)
        numi = [i for i, c in enumerate(spec["data"]["comps"]) if c["kind"] != "cat"]
        if numi:
            ci = numi[0]
            vals = np.asarray(parent[parent.main_components[ci]], dtype=float)[pv]
            for stat in spec["stats"]:
                fn = {"minimum": np.nanmin, "maximum": np.nanmax, "mean": np.nanmean, "sum": np.nansum, "median": np.nanmedian}[stat]
                v = np.where(np.isfinite(vals), vals, np.nan)
                with np.errstate(all="ignore"):
                    exp = fn(v) if np.isfinite(v).any() else np.nan
                got = idata.compute_statistic(stat, idata.main_components[ci])
                if not (np.isclose(got, exp, rtol=1e-9, atol=0, equal_nan=True)):
                    raise Mismatch("indexed/compute_statistic/" + stat, {"got": float(got), "expected": float(exp), "indices": list(ind), "round": rnd})
                if pm is not None and len(rshape) >= 1:
                    sel = np.where(pm & np.isfinite(vals), vals, np.nan)
                    with np.errstate(all="ignore"):
                        exp = fn(sel) if np.isfinite(sel).any() else np.nan
                    try:
                        got = idata.compute_statistic(stat, idata.main_components[ci], subset_state=state)
                    except Exception as e:  # noqa
                        if blame(e)[0] == "glue":
                            raise Mismatch("indexed/compute_statistic-subset-raises/%s" % type(e).__name__, repr(e))
                        raise
                    if not (np.isclose(got, exp, rtol=1e-9, atol=0, equal_nan=True)):
                        raise Mismatch("indexed/compute_statistic-subset/" + stat, {"got": float(got), "expected": float(exp), "indices": list(ind)})
                # along axes of the reduced dataset, with and without the selection (a selection that misses the slice gives all-NaN)
                axes = [k for k in range(len(rshape))] + ([tuple(range(len(rshape)))] if len(rshape) >= 2 else [])
                for axis in axes:
                    for use_sub in ((False, True) if pm is not None else (False,)):
                        keep = np.isfinite(vals) & (pm if use_sub else True)
                        sel = np.where(keep, vals, np.nan)
                        with np.errstate(all="ignore"):
                            import warnings
                            with warnings.catch_warnings():
                                warnings.simplefilter("ignore")
                                exp = np.asarray(fn(sel, axis=axis), dtype=float)
                        exp = np.where(keep.sum(axis=axis) == 0, np.nan, exp)
                        try:
                            got = np.asarray(idata.compute_statistic(stat, idata.main_components[ci], axis=axis,
                                                                     subset_state=gen.build_state(spec["tree"], parent) if use_sub else None), dtype=float)
                        except Exception as e:  # noqa
                            if blame(e)[0] == "glue":
                                raise Mismatch("indexed/compute_statistic-axis-raises/%s" % type(e).__name__, repr(e))
                            raise
                        tag = "subset" if use_sub else "all"
                        if got.shape != exp.shape:
                            if use_sub and spec["tree"]["t"] == "slice":
                                rec.label("indexed-slice-subset-compact-shape-not-compared")      # undocumented compact path, see C10
                                continue
                            raise Mismatch("indexed/compute_statistic-axis/%s/shape%s" % (tag, "/selection-misses-slice" if use_sub and not keep.any() else ""),
                                           {"got": list(got.shape), "expected": list(exp.shape), "axis": axis, "indices": list(ind), "round": rnd})
                        if not np.allclose(got, exp, rtol=1e-9, atol=0, equal_nan=True):
                            raise Mismatch("indexed/compute_statistic-axis/%s/%s" % (tag, stat), {"got": got.tolist(), "expected": exp.tolist(), "axis": axis, "indices": list(ind)})
                        if use_sub and not keep.any():
                            rec.label("indexed-selection-misses-slice")
            # histogram of the first numeric component over [-5, 5] with 5 bins
            fin = vals[np.isfinite(vals)]
            exp_h = np.histogram(fin, bins=5, range=(-5.1, 4.9))[0]
            got_h = idata.compute_histogram([parent.main_components[ci]], range=[(-5.1, 4.9)], bins=[5])
            if not np.array_equal(np.asarray(got_h), exp_h):
                raise Mismatch("indexed/compute_histogram", {"got": np.asarray(got_h).tolist(), "expected": exp_h.tolist(), "indices": list(ind), "round": rnd})
            if pm is not None:
                exp_h = np.histogram(vals[pm & np.isfinite(vals)], bins=5, range=(-5.1, 4.9))[0]
                got_h = idata.compute_histogram([parent.main_components[ci]], range=[(-5.1, 4.9)], bins=[5], subset_state=gen.build_state(spec["tree"], parent))
                if not np.array_equal(np.asarray(got_h), exp_h):
                    raise Mismatch("indexed/compute_histogram-subset", {"got": np.asarray(got_h).tolist(), "expected": exp_h.tolist(), "indices": list(ind), "round": rnd})
    rec.nt(any(i is not None for i in indices) and any(i is None for i in indices))
    rec.label("parent-ndim:%d" % len(shape), "rounds:%d" % len(rounds), "view" if spec.get("use_view") else "noview")
    if any(i is not None and i < 0 for r in rounds for i in r):
        rec.label("negative-index")


# --------------------------------------------------------------------------- generators

@st.composite
def attr_cases(draw):
    dspec = draw(gen.data_spec(max_dims=3, max_side=4, max_comps=3))
    return {"data": dspec, "view": draw(gen.view_spec(dspec["shape"], VIEW_KINDS)), "target": draw(st.integers(0, 30)),
            "derived": draw(st.sampled_from([None, "binary", "scalar-first", "pixels"])),
            "linked": draw(st.sampled_from([None, "identity", "affine"]))}


@st.composite
def mask_cases(draw):
    dspec = draw(gen.data_spec(max_dims=3, max_side=4, max_comps=3))
    return {"data": dspec, "view": draw(gen.view_spec(dspec["shape"], VIEW_KINDS)),
            "tree": draw(gen.tree_spec(dspec, max_leaves=3)), "order": draw(st.integers(0, 1))}


@st.composite
def scalar_cases(draw):
    dspec = draw(gen.data_spec(max_dims=3, max_side=3, max_comps=3))
    return {"data": dspec, "idx": draw(st.lists(st.integers(0, 5), min_size=len(dspec["shape"]), max_size=len(dspec["shape"]))),
            "tree": draw(gen.leaf_spec(dspec))}


@st.composite
def indexed_cases(draw):
    dspec = draw(gen.data_spec(min_dims=2, max_dims=4, max_side=3, max_comps=2, coords=False, force_kinds=("float",)))
    nd = len(dspec["shape"])
    ind = [draw(st.one_of(st.none(), st.integers(0, 5))) for _ in range(nd)]
    if all(i is None for i in ind):
        ind[draw(st.integers(0, nd - 1))] = draw(st.integers(0, 5))
    if all(i is not None for i in ind):
        ind[draw(st.integers(0, nd - 1))] = None
    ind2 = draw(st.one_of(st.none(), st.lists(st.integers(0, 5), min_size=nd, max_size=nd)))
    views = [draw(gen.slice_spec(3))[1:] for _ in range(nd)]
    kinds = ["ineq", "range", "mask", "slice", "roi", "element", "base", "multirange"]
    return {"data": dspec, "indices": ind, "indices2": ind2, "neg": draw(st.lists(st.booleans(), min_size=nd, max_size=nd)), "view": views, "use_view": draw(st.booleans()),
            "tree": draw(gen.tree_spec(dspec, max_leaves=2, kinds=kinds)),
            "stats": draw(st.lists(st.sampled_from(["minimum", "maximum", "mean", "sum", "median"]), min_size=1, max_size=2, unique=True))}


# --------------------------------------------------------------------------- selections seen from a pixel-aligned dataset

def build_aligned(spec):
    """-> dict(a, b, make, expected_full, mask_a, kind, perm, pad, shape_b): see fn_aligned"""
    return _aligned(spec, None, build_only=True)


def fn_aligned(spec, rec):
    return _aligned(spec, rec)


def _aligned(spec, rec, build_only=False):
    """A selection defined on dataset A, evaluated (with a view) on dataset B whose pixel axes are linked one-to-one to A's,
    possibly in another order.  Two oracles: the view of the full mask (this property), and the full mask itself equals A's mask
    with the axes permuted (what 'selects exactly the elements whose derived values satisfy it' means for linked pixel axes)."""
    from glue.core import Data, DataCollection
    from glue.core.link_helpers import LinkSame
    from glue.core.subset import SliceSubsetState, MaskSubsetState, RoiSubsetState, RangeSubsetState
    from glue.core.roi import RectangularROI
    shape_a = tuple(spec["shape"])
    nd = len(shape_a)
    perm = [p % nd for p in spec["perm"]][:nd]
    if sorted(perm) != list(range(nd)):
        perm = list(range(nd))
    leaf = spec["leaf"]
    k = leaf["t"]
    pad = [0] * nd if k == "slice" else (list(spec.get("pad") or []) + [0] * nd)[:nd]      # B may extend beyond A's grid
    shape_b = tuple(shape_a[perm[i]] + pad[i] for i in range(nd))
    a = Data(label="A", u=np.arange(int(np.prod(shape_a)), dtype=float).reshape(shape_a))
    b = Data(label="B", v=(np.arange(int(np.prod(shape_b)), dtype=float) * 3 % 7 - 2).reshape(shape_b))
    dc = DataCollection([a, b])
    for i in range(nd):
        dc.add_link(LinkSame(a.pixel_component_ids[perm[i]], b.pixel_component_ids[i]))
    grid = np.meshgrid(*[np.arange(n) for n in shape_a], indexing="ij")
    grid_b = np.meshgrid(*[np.arange(n) for n in shape_b], indexing="ij")
    pos_a = [None] * nd                 # position along each of A's axes of every element of B
    for i in range(nd):
        pos_a[perm[i]] = grid_b[i]
    inside = np.ones(shape_b, dtype=bool)
    for ax in range(nd):
        inside &= pos_a[ax] < shape_a[ax]
    if k == "slice":
        sl = [slice(*x) for x in leaf["slices"][:nd]] + [slice(None)] * (nd - len(leaf["slices"][:nd]))
        mask_a = np.zeros(shape_a, dtype=bool)
        mask_a[tuple(sl)] = True
        expected_full = np.transpose(mask_a, perm)

        def make():
            return SliceSubsetState(a, sl)
    elif k == "mask":
        bits = (leaf["bits"] * (int(np.prod(shape_a)) // max(1, len(leaf["bits"])) + 1))[:int(np.prod(shape_a))]
        mask_a = np.array(bits, dtype=bool).reshape(shape_a)
        expected_full = np.zeros(shape_b, dtype=bool)      # elements of B outside A's grid are not selected
        expected_full[inside] = mask_a[tuple(p[inside] for p in pos_a)]

        def make():
            return MaskSubsetState(mask_a.copy(), a.pixel_component_ids)
    elif k == "ineq":
        ax = leaf["axis"] % nd
        mask_a = grid[ax] > leaf["val"]
        expected_full = pos_a[ax] > leaf["val"]

        def make():
            return a.pixel_component_ids[ax] > leaf["val"]
    elif k == "range":
        ax = leaf["axis"] % nd
        lo, hi = sorted([leaf["lo"], leaf["hi"]])
        mask_a = (grid[ax] >= lo) & (grid[ax] <= hi)
        expected_full = (pos_a[ax] >= lo) & (pos_a[ax] <= hi)

        def make():
            return RangeSubsetState(lo, hi, att=a.pixel_component_ids[ax])
    else:
        ax, ay = leaf["ax"] % nd, leaf["ay"] % nd
        x0, x1 = sorted([leaf["x0"], leaf["x1"]])
        y0, y1 = sorted([leaf["y0"], leaf["y1"]])
        mask_a = (grid[ax] > x0 - 0.5) & (grid[ax] < x1 + 0.5) & (grid[ay] > y0 - 0.5) & (grid[ay] < y1 + 0.5)
        expected_full = (pos_a[ax] > x0 - 0.5) & (pos_a[ax] < x1 + 0.5) & (pos_a[ay] > y0 - 0.5) & (pos_a[ay] < y1 + 0.5)

        def make():
            return RoiSubsetState(xatt=a.pixel_component_ids[ax], yatt=a.pixel_component_ids[ay],
                                  roi=RectangularROI(xmin=x0 - 0.5, xmax=x1 + 0.5, ymin=y0 - 0.5, ymax=y1 + 0.5))
    if build_only:
        return {"a": a, "b": b, "make": make, "expected_full": expected_full, "mask_a": mask_a, "kind": k, "perm": perm, "pad": pad, "shape_b": shape_b}
    vs = spec["view"]
    view = gen.build_view(vs, shape_b)

    def guard(f, what):
        try:
            return np.asarray(f())
        except Exception as e:  # noqa
            if blame(e)[0] != "glue":
                raise
            raise Mismatch("aligned-%s-raises/%s/%s" % (what, k, type(e).__name__), repr(e)[:300])
    state = make()
    if spec.get("order"):
        full = guard(lambda: b.get_mask(state), "full")
        got = guard(lambda: b.get_mask(state, view), "view")
    else:
        got = guard(lambda: b.get_mask(state, view), "view")
        full = guard(lambda: b.get_mask(make()), "full")
    if full.shape != shape_b or not np.array_equal(full.astype(bool), expected_full):
        raise Mismatch("aligned-full-mask-wrong/%s/%s" % (k, "permuted" if perm != list(range(nd)) else "same-order"),
                       {"got": full.astype(int).tolist(), "expected": expected_full.astype(int).tolist(), "perm": perm})
    expected = expected_full if view is None else expected_full[view]
    if got.shape != expected.shape:
        raise Mismatch("aligned-mask-view/%s/%s/shape" % (k, vs[0]), {"got": list(got.shape), "expected": list(expected.shape)})
    if not np.array_equal(got.astype(bool), expected):
        raise Mismatch("aligned-mask-view/%s/%s/values" % (k, vs[0]), {"got": got.astype(int).tolist(), "expected": expected.astype(int).tolist(), "perm": perm})
    # and the same selection on its own dataset
    own = guard(lambda: a.get_mask(make()), "own")
    if not np.array_equal(own.astype(bool), mask_a):
        raise Mismatch("aligned-own-mask-wrong/%s" % k, None)
    rec.nt(gen.view_is_proper(vs, shape_b) and mask_a.any() and not mask_a.all())
    rec.label("aligned:" + k, "view:" + vs[0], "ndim:%d" % nd, "permuted" if perm != list(range(nd)) else "same-order",
              "larger-than-A" if any(pad) else "same-size")


@st.composite
def aligned_cases(draw):
    shape = draw(st.lists(st.integers(1, 4), min_size=1, max_size=3))
    nd = len(shape)
    perm = draw(st.permutations(list(range(nd))))
    sl = st.tuples(st.one_of(st.none(), st.integers(0, 3)), st.one_of(st.none(), st.integers(0, 4)), st.one_of(st.none(), st.integers(1, 3))).map(list)
    leaf = draw(st.one_of(
        st.fixed_dictionaries({"t": st.just("slice"), "slices": st.lists(sl, min_size=nd, max_size=nd)}),
        st.fixed_dictionaries({"t": st.just("slice"), "slices": st.lists(sl, min_size=nd, max_size=nd)}),
        st.fixed_dictionaries({"t": st.just("mask"), "bits": st.lists(st.booleans(), min_size=1, max_size=12)}),
        st.fixed_dictionaries({"t": st.just("ineq"), "axis": st.integers(0, 2), "val": st.sampled_from([-1, 0, 0.5, 1, 2])}),
        st.fixed_dictionaries({"t": st.just("range"), "axis": st.integers(0, 2), "lo": st.integers(-1, 3), "hi": st.integers(0, 4)}),
        st.fixed_dictionaries({"t": st.just("roi"), "ax": st.integers(0, 2), "ay": st.integers(0, 2), "x0": st.integers(0, 3), "x1": st.integers(0, 3),
                               "y0": st.integers(0, 3), "y1": st.integers(0, 3)})))
    pad = [0] * nd if leaf["t"] == "slice" else draw(st.lists(st.sampled_from([0, 0, 1, 2]), min_size=nd, max_size=nd))
    shape_b = [shape[p] + pad[i] for i, p in enumerate(perm)]
    return {"shape": shape, "perm": list(perm), "leaf": leaf, "pad": pad, "view": draw(gen.view_spec(shape_b)), "order": draw(st.booleans())}


def checks(tier):
    n = {"quick": (3000, 3000, 400, 500, 1200), "thorough": (30000, 30000, 4000, 5000, 12000)}.get(tier, (10, 10, 10, 10, 10))
    return [
        Check("attr_view", fn_attr, strategy=attr_cases(), examples=n[0]),
        Check("mask_view", fn_mask, strategy=mask_cases(), examples=n[1]),
        Check("slice_state_1d_exhaustive", fn_slice_enum, enum=slice_blocks, count_distinct=False),
        Check("slice_state_nd", fn_mask, strategy=slice_nd_cases(), examples=n[4]),
        Check("pixel_roi_views", fn_mask, strategy=pixel_roi_cases(), examples=n[4]),
        Check("scalar_views_unasserted", fn_scalar_views, strategy=scalar_cases(), examples=n[2]),
        Check("indexed_data", fn_indexed, strategy=indexed_cases(), examples=n[3]),
        Check("aligned_dataset_views", fn_aligned, strategy=aligned_cases(), examples=n[4]),
    ]
