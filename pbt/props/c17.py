"""C17  A dataset stays structurally consistent and announces every structural change.

Op-list histories on one Data (bare, with its own hub, or inside a collection).  After every step:
structural invariants, op-specific postconditions from a small model, and a two-way comparison
between the structural messages seen on the hub and the difference between the component lists
before and after the step.
"""
import gc

import numpy as np
from hypothesis import strategies as st

from .. import gen
from ..common import Check, Mismatch, blame

PROPERTY = "C17"
RULE = ("op-list histories (<=25 steps) on one Data of 1-3 dims: add_component (array of right/wrong shape, Component, derived link, "
        "str/ComponentID label, duplicate label, existing id), remove_component, reorder_components (valid/invalid), cid.label=..., "
        "update_id, update_components (right/wrong shape), update_values_from_data (same/different shape, dropped/added components, "
        "other coords), coords = None/Identity/Affine, label=...; bare, with a hub, or in a collection. Oracle: invariants + model "
        "postconditions + messages<->diff. Non-trivial = >=3 effective mutations of >=2 kinds incl. a removal or a coords change; "
        "distinct by spec hash.")
ASSUMPTIONS = [
    "only messages named in message.py are asserted: DataAdd/Remove/Reorder/RenameComponentMessage and ComponentReplacedMessage for structure; NumericalDataChangedMessage for value updates; DataUpdateMessage for label",
    "pixel/world ids are not removed through remove_component (no caller does); replacing values under an existing id is not structural",
    "an invalid argument must raise and leave the component list and the message log unchanged",
]


class World:
    def __init__(self, spec):
        from glue.core import Data, DataCollection
        from glue.core.hub import Hub, HubListener
        from glue.core.message import Message
        self.shape = tuple(spec["shape"])
        n = int(np.prod(self.shape))
        self.data = Data(label="d")
        self.data.add_component(np.arange(n, dtype=float).reshape(self.shape), "a")
        if spec["coords"] == "identity":
            self.data.coords = gen.build_coords({"kind": "identity"}, len(self.shape))
        self.mode = spec["mode"]
        self.log = []
        self.listener = None
        if self.mode == "collection":
            self.dc = DataCollection([self.data])
            hub = self.dc.hub
        elif self.mode == "hub":
            hub = Hub()
            self.data.register_to_hub(hub)
        else:
            hub = None
        if hub is not None:
            log = self.log

            class L(HubListener):
                def notify(self_, msg):
                    log.append(msg)
            self.listener = L()
            hub.subscribe(self.listener, Message)
        self.counter = 0
        self.kinds = set()
        self.effective = 0

    # ---- observation
    def snap(self):
        d = self.data
        return [(c, c.label) for c in d.components]

    def check_invariants(self, where):
        d = self.data
        comps = d.components
        ids = [id(c) for c in comps]
        if len(set(ids)) != len(ids):
            raise Mismatch("component-id-listed-twice", where)
        for c in comps:
            try:
                shp = tuple(d.get_component(c).shape)
            except Exception as e:  # noqa
                if blame(e)[0] != "glue":
                    raise
                raise Mismatch("component-shape-unreadable/%s" % type(e).__name__, where)
            if shp != tuple(d.shape):
                raise Mismatch("component-shape-differs-from-data", {"where": where, "component": str(c), "got": list(shp), "data": list(d.shape)})
            if any(c is x for x in d.derived_components):
                # a derived component reports the dataset's shape without computing anything: read it
                try:
                    got_shape = tuple(np.shape(d[c]))
                except Exception as e:  # noqa
                    if blame(e)[0] != "glue":
                        raise
                    raise Mismatch("derived-component-unreadable/%s" % type(e).__name__, {"where": where, "component": str(c)})
                if got_shape != tuple(d.shape):
                    raise Mismatch("derived-component-values-have-another-shape", {"where": where, "component": str(c), "got": list(got_shape)})
        pix = d.pixel_component_ids
        if len(pix) != d.ndim or [p.axis for p in pix] != list(range(d.ndim)):
            raise Mismatch("pixel-attributes-not-one-per-dimension", {"where": where, "n": len(pix), "ndim": d.ndim})
        for p in pix:
            if not any(p is c for c in comps):
                raise Mismatch("pixel-attribute-not-a-component", where)
        wids = d.world_component_ids
        want = d.ndim if d.coords is not None else 0
        if len(wids) != want:
            raise Mismatch("world-attributes-not-one-per-dimension", {"where": where, "n": len(wids), "expected": want})
        for w in wids:
            if not any(w is c for c in comps):
                raise Mismatch("world-attribute-not-a-component", where)
        from glue.core.component import CoordinateComponent
        nworld = sum(1 for c in comps if isinstance(d.get_component(c), CoordinateComponent) and d.get_component(c).world)
        if nworld != want:
            raise Mismatch("world-coordinate-components-not-one-per-dimension", {"where": where, "n": nworld, "expected": want})
        # lookup by name: unique match within the first category where the label occurs, else None
        cats = [d.main_components, d.derived_components, d.coordinate_components]
        for lab in {c.label for c in comps}:
            exp = "absent"
            for cat in cats:
                hits = [c for c in cat if c.label == lab]
                if len(hits) == 1:
                    exp = hits[0]
                    break
                if len(hits) > 1:
                    exp = None
                    break
            got = d.find_component_id(lab)
            if exp == "absent":
                continue
            if got is not exp:
                raise Mismatch("lookup-by-name-wrong", {"where": where, "label": lab, "got": str(got), "expected": str(exp)})
        if d.find_component_id("no-such-label-xyz") is not None:
            raise Mismatch("lookup-of-unknown-name-returns-something", where)

    def check_messages(self, before, after, where, value_update=False, label_update=False):
        """structural messages <-> difference between component lists"""
        from glue.core import message as M
        if self.listener is None:
            return
        msgs = [m for m in self.log if getattr(m, "data", None) is self.data]
        b_ids = [id(c) for c, _ in before]
        a_ids = [id(c) for c, _ in after]
        replaced_msgs = [m for m in msgs if type(m) is M.ComponentReplacedMessage]
        replaced_old = {id(m.old) for m in replaced_msgs}
        replaced_new = {id(m.new) for m in replaced_msgs}
        added = [c for c, _ in after if id(c) not in b_ids and id(c) not in replaced_new]
        removed = [c for c, _ in before if id(c) not in a_ids and id(c) not in replaced_old]
        add_msgs = [m.component_id for m in msgs if type(m) is M.DataAddComponentMessage]
        rem_msgs = [m.component_id for m in msgs if type(m) is M.DataRemoveComponentMessage]
        # a component added and removed again within one operation is allowed to be announced both ways
        transient = {id(c) for c in add_msgs} & {id(c) for c in rem_msgs}
        if sorted(id(c) for c in add_msgs if id(c) not in transient) != sorted(id(c) for c in added):
            un = [str(c) for c in added if all(c is not x for x in add_msgs)]
            raise Mismatch("added-component-not-announced" if un else "announced-addition-that-did-not-happen",
                           {"where": where, "added": [str(c) for c in added], "announced": [str(c) for c in add_msgs]})
        if sorted(id(c) for c in rem_msgs if id(c) not in transient) != sorted(id(c) for c in removed):
            un = [str(c) for c in removed if all(c is not x for x in rem_msgs)]
            raise Mismatch("removed-component-not-announced" if un else "announced-removal-that-did-not-happen",
                           {"where": where, "removed": [str(c) for c in removed], "announced": [str(c) for c in rem_msgs]})
        for m in add_msgs + rem_msgs:
            pass
        # replaced
        for m in replaced_msgs:
            if id(m.old) not in b_ids or id(m.new) not in a_ids or id(m.old) in a_ids:
                raise Mismatch("announced-replacement-that-did-not-happen", where)
        really_replaced = [(bc, ac) for (bc, _), (ac, _) in zip(before, after) if bc is not ac] if len(before) == len(after) and not added and not removed else []
        really_replaced = [(o, n) for o, n in really_replaced if id(o) not in a_ids and id(n) not in b_ids]
        if len(really_replaced) != len([m for m in replaced_msgs]) and not (added or removed):
            if len(really_replaced) > len(replaced_msgs):
                raise Mismatch("replaced-id-not-announced", where)
        # renamed
        ren_msgs = [m.component_id for m in msgs if type(m) is M.DataRenameComponentMessage]
        blab = {id(c): l for c, l in before}
        renamed = [c for c, l in after if id(c) in blab and blab[id(c)] != l]
        if sorted(id(c) for c in ren_msgs) != sorted(id(c) for c in renamed):
            raise Mismatch("rename-not-announced" if len(renamed) > len(ren_msgs) else "announced-rename-that-did-not-happen",
                           {"where": where, "renamed": [str(c) for c in renamed], "announced": [str(c) for c in ren_msgs]})
        # reordered: relative order of the persisting ids
        keep_b = [i for i in b_ids if i in a_ids]
        keep_a = [i for i in a_ids if i in b_ids]
        reo_msgs = [m for m in msgs if type(m) is M.DataReorderComponentMessage]
        if keep_b != keep_a and not reo_msgs:
            raise Mismatch("reorder-not-announced", where)
        if keep_b == keep_a and reo_msgs:
            raise Mismatch("announced-reorder-that-did-not-happen", where)
        for m in reo_msgs:
            if [id(c) for c in m.component_ids] != a_ids:
                raise Mismatch("reorder-message-carries-wrong-order", where)
        for m in msgs:
            if isinstance(m, M.DataMessage) and m.data is not self.data:
                raise Mismatch("message-carries-wrong-dataset", where)
        if value_update and not any(type(m) is M.NumericalDataChangedMessage for m in msgs):
            raise Mismatch("value-update-not-announced", where)
        if label_update and not any(type(m) is M.DataUpdateMessage and m.attribute == "label" for m in msgs):
            raise Mismatch("label-change-not-announced", where)

    # ---- operations
    def must_raise(self, f, exc, what, before):
        try:
            f()
        except exc:
            if [(id(c), l) for c, l in self.snap()] != [(id(c), l) for c, l in before]:
                raise Mismatch("invalid-%s-changed-the-dataset" % what, None)
            struct = [m for m in self.log if type(m).__name__ in ("DataAddComponentMessage", "DataRemoveComponentMessage",
                                                                  "DataReorderComponentMessage", "ComponentReplacedMessage")]
            if struct:
                raise Mismatch("invalid-%s-announced-a-change" % what, None)
            return
        except Exception as e:  # noqa
            if blame(e)[0] != "glue":
                raise
            raise Mismatch("invalid-%s-raises-%s-instead-of-%s" % (what, type(e).__name__, exc.__name__), repr(e))
        raise Mismatch("invalid-%s-accepted" % what, None)

    def step(self, op, k):
        from glue.core.component import Component
        from glue.core.component_id import ComponentID
        d = self.data
        before = self.snap()
        del self.log[:]
        kind = op[0]
        where = {"step": k, "op": op}
        n = int(np.prod(d.shape))
        user = [c for c in d.main_components + d.derived_components]
        value_update = label_update = False
        self.counter += 1
        if kind == "add":
            how = op[1]
            arr = (np.arange(n, dtype=float) * (self.counter % 3 + 1)).reshape(d.shape)
            if how == "wrongshape":
                bad = np.zeros(tuple(s + 1 for s in d.shape))
                self.must_raise(lambda: d.add_component(bad, "bad%d" % self.counter), ValueError, "add_component(wrong shape)", before)
                return
            if how == "str":
                cid = d.add_component(arr, "n%d" % self.counter)
            elif how == "dup" and user:
                cid = d.add_component(arr, user[op[2] % len(user)].label)
            elif how == "cid":
                cid = d.add_component(Component(arr), ComponentID("k%d" % self.counter))
            elif how == "existing" and d.main_components:
                tgt = d.main_components[op[2] % len(d.main_components)]
                cid = d.add_component(arr, tgt)
                if cid is not tgt or len(self.snap()) != len(before):
                    raise Mismatch("add_component-under-existing-id-changed-structure", where)
            elif how == "derived" and d.main_components:
                src = d.main_components[op[2] % len(d.main_components)]
                other = d.main_components[(op[2] // 2) % len(d.main_components)]
                # expressions of several shapes: the same attribute may sit on both sides, or on the right of a sub-expression
                expr = [src * 2, other * 2 + src, src - src, (src + 1) * (other - src), 3 - src][self.counter % 5]
                d.add_component(expr, "v%d" % self.counter)
                cid = d.components[-1]
            else:
                return
            after = self.snap()
            if how != "existing":
                if after[:-1] != before or after[-1][0] is not cid:
                    raise Mismatch("add_component-did-not-append-the-new-id-last", where)
            self.kinds.add("add")
        elif kind == "remove":
            if len(user) <= 1:
                return
            tgt = user[op[1] % len(user)]
            if len(d.main_components) == 1 and tgt is d.main_components[0]:
                return          # keep at least one stored component (an empty dataset has no shape)
            d.remove_component(tgt)
            after = self.snap()
            if any(c is tgt for c, _ in after):
                raise Mismatch("remove_component-left-the-component", where)
            self.kinds.add("remove")
        elif kind == "reorder":
            comps = d.components
            if op[1] == "invalid":
                bad = comps[:-1] + [ComponentID("zz")]
                self.must_raise(lambda: d.reorder_components(bad), ValueError, "reorder_components", before)
                self.must_raise(lambda: d.reorder_components(comps[:-1]), ValueError, "reorder_components", before)
                return
            perm = list(comps)
            i, j = op[2] % len(perm), op[3] % len(perm)
            perm[i], perm[j] = perm[j], perm[i]
            d.reorder_components(perm)
            if [id(c) for c in d.components] != [id(c) for c in perm]:
                raise Mismatch("reorder_components-order-not-as-requested", where)
            self.kinds.add("reorder")
        elif kind == "rename":
            if not user:
                return
            tgt = user[op[1] % len(user)]
            if len(op) > 3 and op[3] == 2:
                # take over the label of another component (stored, derived or a pixel / world attribute): names may clash
                others = [c for c in d.components if c is not tgt]
                if not others:
                    return
                tgt.label = others[(op[1] // 2 + int(op[2])) % len(others)].label
                self.kinds.add("rename:to-existing-label")
            elif len(op) > 3 and op[3]:
                # labels are free: a number is accepted and stored as its text - assigning it again is not a rename
                tgt.label = (7 if op[2] else 2.5)
                self.kinds.add("rename:non-string")
            else:
                tgt.label = "r%d" % (self.counter if op[2] else 0)
            self.kinds.add("rename")
        elif kind == "update_id":
            if not d.main_components:
                return
            pool = list(d.main_components)
            if len(op) > 2 and op[2]:
                pool = pool + list(d.pixel_component_ids) + list(d.world_component_ids)     # coordinate attributes can be re-identified too
            tgt = pool[op[1] % len(pool)]
            pos = [i for i, (c, _) in enumerate(before) if c is tgt][0]
            if any(tgt is p for p in d.pixel_component_ids):
                from glue.core.component_id import PixelComponentID
                new = PixelComponentID(tgt.axis, "u%d" % self.counter)
                self.kinds.add("update_id:pixel")
            else:
                new = ComponentID("u%d" % self.counter)
                if any(tgt is w for w in d.world_component_ids):
                    self.kinds.add("update_id:world")
            vals = np.array(d[tgt])
            d.update_id(tgt, new)
            after = self.snap()
            if len(after) != len(before) or after[pos][0] is not new or any(c is tgt for c, _ in after):
                raise Mismatch("update_id-lost-position-or-kept-old-id", where)
            if not np.array_equal(np.asarray(d[new]), vals):
                raise Mismatch("update_id-changed-values", where)
            self.kinds.add("update_id")
        elif kind == "update_components":
            if not d.main_components:
                return
            tgt = d.main_components[op[1] % len(d.main_components)]
            if op[2]:
                self.must_raise(lambda: d.update_components({tgt: np.zeros(tuple(s + 1 for s in d.shape))}), ValueError, "update_components(wrong shape)", before)
                return
            new = (np.arange(n, dtype=float) + self.counter).reshape(d.shape)
            d.update_components({tgt: new})
            if not np.array_equal(np.asarray(d[tgt]), new):
                raise Mismatch("update_components-values-not-updated", where)
            value_update = True
            self.kinds.add("values")
        elif kind == "refresh":
            from glue.core import Data
            shape2 = tuple(max(1, s + op[1] - 1) for s in d.shape) if op[2] else d.shape
            n2 = int(np.prod(shape2))
            other = Data(label="other%d" % self.counter)
            labels = [c.label for c in d.main_components]
            if len(set(c.label for c in d.components)) != len(d.components):
                self.must_raise(lambda: d.update_values_from_data(other), ValueError, "update_values_from_data(non-unique labels)", before)
                return
            keep = labels[: max(1, len(labels) - (op[3] % 2))]
            for lab in keep:
                other.add_component((np.arange(n2, dtype=float) + 5).reshape(shape2), lab)
            if op[3] >= 2:
                other.add_component(np.zeros(shape2), "fresh%d" % self.counter)
            if op[4] == 1:
                other.coords = gen.build_coords({"kind": "identity"}, len(shape2))
            if len(set(c.label for c in other.components)) != len(other.components):
                # a stored component named like one of the new dataset's own coordinate attributes: documented loud rejection
                self.must_raise(lambda: d.update_values_from_data(other), ValueError, "update_values_from_data(non-unique labels in new data)", before)
                return
            try:
                d.update_values_from_data(other)
            except Exception as e:  # noqa
                if blame(e)[0] != "glue":
                    raise
                raise Mismatch("update_values_from_data-raises/%s" % type(e).__name__, repr(e))
            if tuple(d.shape) != tuple(shape2):
                raise Mismatch("update_values_from_data-shape-not-updated", where)
            got_labels = [c.label for c in d.main_components]
            exp_labels = [c.label for c in other.main_components]
            if sorted(got_labels) != sorted(exp_labels):
                raise Mismatch("update_values_from_data-component-set-differs", {"where": where, "got": got_labels, "expected": exp_labels})
            for lab in exp_labels:
                if not np.array_equal(np.asarray(d[d.find_component_id(lab)]), np.asarray(other[lab])):
                    raise Mismatch("update_values_from_data-values-differ", {"where": where, "label": lab})
            value_update = True
            label_update = True
            self.kinds.add("refresh")
            if op[4] == 1 or d.coords is not None:
                self.kinds.add("coords")
        elif kind == "coords":
            nd = d.ndim
            if op[1] == 0:
                new = None
            elif op[1] == 1:
                new = gen.build_coords({"kind": "identity"}, nd)
            else:
                m = np.eye(nd + 1)
                for i in range(nd):
                    m[i, i] = 2.0
                new = gen.build_coords({"kind": "affine", "matrix": m.tolist(), "labels": ["L%d_%d" % (self.counter, i) for i in range(nd)] if op[2] else None}, nd)
            d.coords = new
            self.kinds.add("coords")
        elif kind == "label":
            newlab = "lab%d" % self.counter
            d.label = newlab
            label_update = True
        else:
            raise ValueError(kind)
        gc.collect()
        after = self.snap()
        self.effective += 1
        self.check_invariants(where)
        self.check_messages(before, after, where, value_update=value_update, label_update=label_update)


def fn_history(spec, rec):
    w = World(spec)
    w.check_invariants("setup")
    for k, op in enumerate(spec["ops"]):
        w.step(op, k)
    rec.nt(w.effective >= 3 and len(w.kinds) >= 2 and bool(w.kinds & {"remove", "coords", "refresh"}))
    rec.label("mode:" + spec["mode"], "ndim:%d" % len(spec["shape"]))
    for k in sorted(w.kinds):
        rec.label("did:" + k)


idx = st.integers(0, 5)
op = st.one_of(
    st.tuples(st.just("add"), st.sampled_from(["str", "dup", "cid", "existing", "derived", "wrongshape", "str", "derived"]), idx),
    st.tuples(st.just("add"), st.sampled_from(["str", "dup", "cid", "existing", "derived", "wrongshape", "str", "derived"]), idx),
    st.tuples(st.just("remove"), idx),
    st.tuples(st.just("reorder"), st.sampled_from(["valid", "valid", "invalid"]), idx, idx),
    st.tuples(st.just("rename"), idx, st.booleans(), st.sampled_from([False, False, True, 2, 2])),
    st.tuples(st.just("update_id"), idx, st.sampled_from([0, 0, 1])),
    st.tuples(st.just("update_components"), idx, st.booleans()),
    st.tuples(st.just("refresh"), st.integers(0, 2), st.booleans(), st.integers(0, 3), st.integers(0, 1)),
    st.tuples(st.just("coords"), st.integers(0, 2), st.booleans()),
    st.tuples(st.just("coords"), st.integers(0, 2), st.booleans()),
    st.tuples(st.just("label")),
).map(list)

cases = st.fixed_dictionaries({"shape": gen.shapes(1, 3, 3, 1), "coords": st.sampled_from(["none", "identity"]),
                               "mode": st.sampled_from(["bare", "hub", "collection", "collection"]),
                               "ops": st.lists(op, min_size=2, max_size=25)})


def ambiguity_cases(tier):
    """short fixed histories that give two stored components the label of a derived / pixel / world component"""
    for coords in ("none", "identity"):
        for mode in ("bare", "collection"):
            base = [["add", "str", 0], ["add", "str", 1], ["add", "derived", 0]]
            for i, j in ((0, 1), (1, 0), (0, 2), (2, 0), (1, 2)):
                for a in range(4):
                    for b in range(4):
                        yield {"coords": coords, "mode": mode, "shape": [3], "ops": base + [["rename", i, bool(a % 2), 2], ["rename", j, bool(b % 2), 2],
                                                                                              ["rename", i + a, bool(b // 2), 2], ["rename", j + b, bool(a // 2), 2]]}


def checks(tier):
    n = {"quick": 4000, "thorough": 40000}.get(tier, 10)
    return [Check("data_histories", fn_history, strategy=cases, examples=n),
            Check("label_clash_histories", fn_history, enum=ambiguity_cases)]
