"""C03  Linked attributes are reachable exactly through links and carry composed values.

Histories (op lists) run on a real DataCollection and on an independent link-closure model.
After every top-level step the model's reachable set, admissible values and link registry
are compared with the collection.
"""
import gc

import numpy as np
from hypothesis import strategies as st

from ..common import Check, Mismatch, blame

PROPERTY = "C03"
RULE = ("op-list histories (<=25 steps, thorough 40) over <=5 small datasets (half of the histories give some datasets identity or affine "
        "world coordinates, whose own pixel<->world links then take part in every closure): add_link (one-way, two-way with inverse, identity, two-input, "
        "LinkSame, LinkTwoWay, MultiLink with 1:2 and 2:1 attributes; cycles and diamonds arise; singly, as a list, or by set_links replacing the registry), remove_link (one or a list), add stored/derived component, remove_component, append/remove/"
        "re-append dataset, and bracketed groups inside dc.delay_link_manager_update() or hub.delay_callbacks(). Oracle: link-closure "
        "model (hyper-edges incl. inverses and every dataset's internal links; least-fixpoint depth; admissible value sets along "
        "minimum-depth links; exact arithmetic). Non-trivial = history has a removal followed by an addition and some dataset reads an "
        "attribute through a chain of length >=2 at a comparison point; distinct by spec hash.")
ASSUMPTIONS = [
    "link functions are affine with exactly representable coefficients (shift, negate, *2^k, a+b, a-b) so values compare with ==",
    "the same link object is never registered twice (LinkManager.add_link's duplicate test is unspecified for that)",
    "removed datasets are not inspected for what they still reference",
    "no key joins are registered, so an unreachable attribute must be reported incompatible",
]

N_ROWS = 3


def fn_apply(f, *args):
    k = f[0]
    if k == "id":
        return args[0]
    if k == "shift":
        return args[0] + f[1]
    if k == "neg":
        return -args[0]
    if k == "scale":
        return args[0] * (2.0 ** f[1])
    if k == "add":
        return args[0] + args[1]
    if k == "sub":
        return args[0] - args[1]
    if k == "aff":
        return args[0] * f[1] + f[2]
    if k == "avg":
        return (args[0] + args[1]) * 0.5
    raise ValueError(f)


def fn_inverse(f):
    k = f[0]
    if k == "aff":
        return ["aff", 1.0 / f[1], -f[2] / f[1]]
    if k == "id":
        return ["id"]
    if k == "shift":
        return ["shift", -f[1]]
    if k == "neg":
        return ["neg"]
    if k == "scale":
        return ["scale", -f[1]]
    return None


def make_callable(f):
    k = f[0]
    if k == "shift":
        c = f[1]
        return lambda x: x + c
    if k == "neg":
        return lambda x: -x
    if k == "scale":
        c = 2.0 ** f[1]
        return lambda x: x * c
    if k == "add":
        return lambda x, y: x + y
    if k == "sub":
        return lambda x, y: x - y
    raise ValueError(f)


def _fw12(x):
    return x + 1.0, x - 1.0


def _bw12(p, q):
    return (p + q) * 0.5


def _fw21(x, y):
    return x + y


def _bw21(s_):
    return s_ * 0.5, s_ * 0.5


class Model:
    def __init__(self):
        self.datasets = []     # dict(name, live, comps: {cname: ("stored", vals) | ("derived", [from names], f)}, order: [cname])
        self.links = []        # dict(id, edges: [(from names, to name, f)], mentions: set(names))
        self.next_link = 0

    def own_names(self, d):
        return [d["name"] + ".pix"] + ([d["name"] + ".wld"] if d.get("coords") else []) + [d["name"] + "." + c for c in d["order"]]

    def live(self):
        return [d for d in self.datasets if d["live"]]

    def all_edges(self):
        edges = []
        for L in self.links:
            edges += L["edges"]
        for d in self.live():
            for c in d["order"]:
                kind = d["comps"][c]
                if kind[0] == "derived":
                    edges.append((kind[1], d["name"] + "." + c, kind[2]))
            if d.get("coords"):        # every live dataset's own pixel<->world links take part in everybody's closure
                edges.append(([d["name"] + ".pix"], d["name"] + ".wld", d["coords"]))
                edges.append(([d["name"] + ".wld"], d["name"] + ".pix", fn_inverse(d["coords"])))
        return edges

    def closure(self, d):
        """depth and admissible value sets for dataset d"""
        base = {}
        base[d["name"] + ".pix"] = np.arange(N_ROWS, dtype=float)
        if d.get("coords"):
            base[d["name"] + ".wld"] = fn_apply(d["coords"], np.arange(N_ROWS, dtype=float))
        for c in d["order"]:
            kind = d["comps"][c]
            if kind[0] == "stored":
                base[d["name"] + "." + c] = np.array(kind[1], dtype=float)
        depth = {k: 0 for k in base}
        edges = self.all_edges()
        changed = True
        while changed:
            changed = False
            for frm, to, f in edges:
                if all(x in depth for x in frm):
                    cost = max(depth[x] for x in frm) + 1
                    if to not in depth or cost < depth[to]:
                        depth[to] = cost
                        changed = True
        V = {k: [v] for k, v in base.items()}
        own_derived = {d["name"] + "." + c: d["comps"][c] for c in d["order"] if d["comps"][c][0] == "derived"}
        for name in sorted(depth, key=lambda k: depth[k]):
            if name in V:
                continue
            vals = []
            cands = [(frm, f) for frm, to, f in edges if to == name and all(x in depth for x in frm)
                     and max(depth[x] for x in frm) + 1 == depth[name]]
            if name in own_derived:
                cands = [(own_derived[name][1], own_derived[name][2])]
            for frm, f in cands:
                if not all(x in V for x in frm):
                    continue
                combos = [[]]
                for x in frm:
                    combos = [c + [v] for c in combos for v in V[x]]
                for c in combos[:64]:
                    r = fn_apply(f, *c)
                    if not any(np.array_equal(r, v) for v in vals):
                        vals.append(r)
            V[name] = vals
        return depth, V


class World:
    def __init__(self, with_coords=False):
        from glue.core import DataCollection
        self.with_coords = with_coords
        self.has_coords = False
        self.dc = DataCollection()
        self.model = Model()
        self.real_data = {}    # name -> Data
        self.cid = {}          # attribute name -> ComponentID
        self.real_links = {}   # link id -> link object
        self.counter = 0
        self.long_chain = False
        self.removal = False
        self.add_after_removal = False

    # ---- primitive operations, applied to both sides
    def new_dataset(self, seed):
        from glue.core import Data
        name = "d%d" % self.counter
        self.counter += 1
        vals = [float((seed * 7 + i * 3) % 5 + i) for i in range(N_ROWS)]
        ckind = [None, None, ["id"], ["aff", 2.0, 1.0], ["aff", -0.5, 3.0]][(seed // 2) % 5] if self.with_coords else None
        coords = None
        if ckind is not None:
            from glue.core.coordinates import IdentityCoordinates, AffineCoordinates
            coords = IdentityCoordinates(n_dim=1) if ckind[0] == "id" else AffineCoordinates(np.array([[ckind[1], ckind[2]], [0.0, 1.0]]))
        d = Data(label=name, coords=coords)
        d.add_component(np.array(vals), "a")
        self.real_data[name] = d
        self.cid[name + ".a"] = d.id["a"]
        self.cid[name + ".pix"] = d.pixel_component_ids[0]
        if ckind is not None:
            self.cid[name + ".wld"] = d.world_component_ids[0]
            self.has_coords = True
        self.model.datasets.append({"name": name, "live": True, "comps": {"a": ("stored", vals)}, "order": ["a"], "coords": ckind})
        self.dc.append(d)
        self.mark_add()

    def mark_add(self):
        if self.removal:
            self.add_after_removal = True

    def pick_attr(self, di, ci, live_only=True):
        ds = self.model.live() if live_only else self.model.datasets
        if not ds:
            return None
        d = ds[di % len(ds)]
        names = self.model.own_names(d)
        return names[ci % len(names)]

    def add_link(self, kind, a, b, a2, f):
        made = self.make_link(kind, a, b, a2, f)
        if made is None:
            return False
        self.register([made])
        self.dc.add_link(made[0])
        return True

    def register(self, made):
        for link, entry in made:
            self.model.links.append(entry)
            self.real_links[entry["id"]] = link
        self.mark_add()

    def add_links(self, specs):
        """several links handed over as one list"""
        made = [m for m in (self.make_link(*sp) for sp in specs) if m is not None]
        self.register(made)
        self.dc.add_link([m[0] for m in made])
        return bool(made)

    def remove_links(self, idxs):
        if not self.model.links:
            return False
        picked = []
        for i in idxs:
            L = self.model.links[i % len(self.model.links)]
            if not any(L is x for x in picked):
                picked.append(L)
        self.model.links = [L for L in self.model.links if not any(L is x for x in picked)]
        self.dc.remove_link([self.real_links.pop(L["id"]) for L in picked])
        self.removal = True
        return True

    def set_links(self, keep_bits, specs):
        """replace the whole registry: a subset of the current links plus new ones"""
        kept = [L for k, L in enumerate(self.model.links) if (keep_bits >> (k % 8)) & 1]
        if len(kept) < len(self.model.links):
            self.removal = True
        made = [m for m in (self.make_link(*sp) for sp in specs) if m is not None]
        kept_real = [self.real_links[L["id"]] for L in kept]
        self.model.links = list(kept)
        self.real_links = {L["id"]: r for L, r in zip(kept, kept_real)}
        self.register(made)
        self.dc.set_links(kept_real + [m[0] for m in made])
        return True

    def make_link(self, kind, a, b, a2, f):
        from glue.core.component_link import ComponentLink
        from glue.core.link_helpers import LinkSame, LinkTwoWay
        if a is None or b is None or a == b or a.split(".")[0] == b.split(".")[0]:
            return None
        lid = self.model.next_link
        self.model.next_link += 1
        ca, cb = self.cid[a], self.cid[b]
        if kind == "oneway":
            if f[0] in ("add", "sub") or f[0] == "id":
                f = ["shift", 1.0]
            link = ComponentLink([ca], cb, using=make_callable(f))
            edges = [([a], b, f)]
        elif kind == "twoway":
            if f[0] in ("add", "sub", "id"):
                f = ["neg"]
            inv = fn_inverse(f)
            link = ComponentLink([ca], cb, using=make_callable(f), inverse=make_callable(inv))
            edges = [([a], b, f), ([b], a, inv)]
        elif kind == "identity":
            link = ComponentLink([ca], cb)
            edges = [([a], b, ["id"]), ([b], a, ["id"])]
        elif kind == "two":
            if a2 is None or a2.split(".")[0] != a.split(".")[0] or a2 == a:
                a2 = a.split(".")[0] + ".pix" if not a.endswith(".pix") else None
            if a2 is None or a2 == a or a2 not in self.cid:
                return None
            if f[0] not in ("add", "sub"):
                f = ["add"]
            link = ComponentLink([ca, self.cid[a2]], cb, using=make_callable(f))
            edges = [([a, a2], b, f)]
        elif kind == "linksame":
            link = LinkSame(ca, cb)
            edges = [([a], b, ["id"]), ([b], a, ["id"])]
        elif kind == "linktwoway":
            if f[0] in ("add", "sub", "id"):
                f = ["scale", 1]
            g = ["shift", 2.0]          # deliberately NOT the inverse of f: non-commuting system
            link = LinkTwoWay(ca, cb, make_callable(f), make_callable(g))
            edges = [([a], b, f), ([b], a, g)]
        elif kind in ("multi12", "multi21"):
            # a MultiLink with one attribute on one side and two on the other (functions returning / taking tuples)
            from glue.core.link_helpers import MultiLink
            side2 = b if kind == "multi12" else a
            ds = [d for d in self.model.live() if d["name"] == side2.split(".")[0]]
            names = [n for n in self.model.own_names(ds[0]) if n != side2] if ds else []
            if not names:
                return None
            other = names[len(side2) % len(names)]
            if kind == "multi12":      # a -> (b, other) ; (b, other) -> a
                link = MultiLink([ca], [cb, self.cid[other]], forwards=_fw12, backwards=_bw12)
                edges = [([a], b, ["shift", 1.0]), ([a], other, ["shift", -1.0]), ([b, other], a, ["avg"])]
            else:                      # (a, other) -> b ; b -> (a, other)
                link = MultiLink([ca, self.cid[other]], [cb], forwards=_fw21, backwards=_bw21)
                edges = [([a, other], b, ["add"]), ([b], a, ["scale", -1]), ([b], other, ["scale", -1])]
        else:
            raise ValueError(kind)
        mentions = set()
        for frm, to, _ in edges:
            mentions |= set(frm) | {to}
        return link, {"id": lid, "edges": edges, "mentions": mentions}

    def remove_link(self, i):
        if not self.model.links:
            return False
        L = self.model.links.pop(i % len(self.model.links))
        self.dc.remove_link(self.real_links.pop(L["id"]))
        self.removal = True
        return True

    def add_component(self, di, seed, derived_from, f):
        ds = self.model.live()
        if not ds:
            return False
        d = ds[di % len(ds)]
        if len(d["order"]) >= 4:
            return False
        cname = "c%d" % len([1 for _ in d["order"]]) + "_%d" % self.counter
        self.counter += 1
        real = self.real_data[d["name"]]
        if derived_from is None:
            vals = [float((seed + i * i) % 6) for i in range(N_ROWS)]
            real.add_component(np.array(vals), cname)
            d["comps"][cname] = ("stored", vals)
        else:
            stored = [c for c in d["order"] if d["comps"][c][0] == "stored"]
            if not stored:
                return False
            src = stored[derived_from % len(stored)]
            if f[0] in ("add", "sub", "id"):
                f = ["scale", 1]
            from glue.core.component_link import ComponentLink
            from glue.core.component_id import ComponentID
            to = ComponentID(cname, parent=real)
            real.add_component_link(ComponentLink([self.cid[d["name"] + "." + src]], to, using=make_callable(f)))
            d["comps"][cname] = ("derived", [d["name"] + "." + src], f)
            self.cid[d["name"] + "." + cname] = to
        d["order"].append(cname)
        if derived_from is None:
            self.cid[d["name"] + "." + cname] = real.id[cname]
        self.mark_add()
        return True

    def remove_component(self, di, ci):
        ds = self.model.live()
        if not ds:
            return False
        d = ds[di % len(ds)]
        if len(d["order"]) <= 1:
            return False
        cname = d["order"][ci % len(d["order"])]
        gone = {d["name"] + "." + cname}
        # transitive own dependents go too
        changed = True
        while changed:
            changed = False
            for c in d["order"]:
                k = d["comps"][c]
                full = d["name"] + "." + c
                if k[0] == "derived" and full not in gone and any(x in gone for x in k[1]):
                    gone.add(full)
                    changed = True
        self.real_data[d["name"]].remove_component(self.cid[d["name"] + "." + cname])
        for full in gone:
            c = full.split(".", 1)[1]
            d["order"].remove(c)
            d["comps"].pop(c)
        self.drop_links_mentioning(gone)
        self.removal = True
        return True

    def drop_links_mentioning(self, names):
        keep = []
        for L in self.model.links:
            if L["mentions"] & set(names):
                self.real_links.pop(L["id"], None)
            else:
                keep.append(L)
        self.model.links = keep

    def remove_dataset(self, i):
        ds = self.model.live()
        if not ds:
            return False
        d = ds[i % len(ds)]
        d["live"] = False
        self.dc.remove(self.real_data[d["name"]])
        self.drop_links_mentioning(self.model.own_names(d))
        self.removal = True
        return True

    def reappend(self, i):
        dead = [d for d in self.model.datasets if not d["live"]]
        if not dead:
            return False
        d = dead[i % len(dead)]
        d["live"] = True
        self.dc.append(self.real_data[d["name"]])
        self.mark_add()
        return True

    def step(self, op):
        k = op[0]
        if k == "new":
            if len(self.model.datasets) >= 5:
                return False
            self.new_dataset(op[1])
            return True
        if k == "link":
            return self.add_link(op[1], self.pick_attr(op[2], op[3]), self.pick_attr(op[4], op[5]), self.pick_attr(op[2], op[6]), op[7])
        if k == "unlink":
            return self.remove_link(op[1])
        if k == "links":
            return self.add_links([(sp[1], self.pick_attr(sp[2], sp[3]), self.pick_attr(sp[4], sp[5]), self.pick_attr(sp[2], sp[6]), sp[7]) for sp in op[1]])
        if k == "unlinks":
            return self.remove_links(op[1])
        if k == "setlinks":
            return self.set_links(op[1], [(sp[1], self.pick_attr(sp[2], sp[3]), self.pick_attr(sp[4], sp[5]), self.pick_attr(sp[2], sp[6]), sp[7]) for sp in op[2]])
        if k == "addcomp":
            return self.add_component(op[1], op[2], None, None)
        if k == "addderived":
            return self.add_component(op[1], op[2], op[3], op[4])
        if k == "rmcomp":
            return self.remove_component(op[1], op[2])
        if k == "remove":
            return self.remove_dataset(op[1])
        if k == "reappend":
            return self.reappend(op[1])
        if k == "block":
            if op[1] == "lm":
                with self.dc.delay_link_manager_update():
                    for sub in op[2]:
                        self.step(sub)
            else:
                with self.dc.hub.delay_callbacks():
                    for sub in op[2]:
                        self.step(sub)
            return True
        raise ValueError(k)

    # ---- comparison
    def check(self, where):
        from glue.core.exceptions import IncompatibleAttribute
        model = self.model
        # registry
        real_ext = list(self.dc.external_links)
        exp_ext = [self.real_links[L["id"]] for L in model.links]
        if sorted(id(x) for x in real_ext) != sorted(id(x) for x in exp_ext):
            extra = [x for x in real_ext if all(x is not y for y in exp_ext)]
            raise Mismatch("link-registry-keeps-dangling-link" if extra else "link-registry-lost-a-link",
                           {"where": where, "real": len(real_ext), "expected": len(exp_ext)})
        all_names = []
        for d in model.live():
            all_names += model.own_names(d)
        for d in model.live():
            real = self.real_data[d["name"]]
            depth, V = model.closure(d)
            own_base = set(real.main_components) | set(real.coordinate_components)
            reach_real = set(real.externally_derivable_components) | own_base | set(real.derived_components)
            names_real = set()
            unknown = []
            rev = {id(c): n for n, c in self.cid.items()}
            for c in reach_real:
                n = rev.get(id(c))
                if n is None:
                    unknown.append(str(c))
                else:
                    names_real.add(n)
            if unknown:
                raise Mismatch("dataset-lists-unknown-attribute", {"where": where, "data": d["name"], "attrs": unknown})
            dead = [n for n in names_real if n not in all_names]
            if dead:
                raise Mismatch("dataset-references-removed-object", {"where": where, "data": d["name"], "attrs": sorted(dead)})
            exp_names = set(depth)
            if names_real != exp_names:
                missing = sorted(exp_names - names_real)
                extra = sorted(names_real - exp_names)
                raise Mismatch("reachable-set-differs/" + ("missing" if missing else "extra"),
                               {"where": where, "data": d["name"], "missing": missing, "extra": extra})
            for n in sorted(exp_names):
                try:
                    got = np.asarray(real[self.cid[n]], dtype=float)
                except Exception as e:  # noqa
                    if blame(e)[0] != "glue":
                        raise
                    raise Mismatch("reachable-attribute-unreadable/%s" % type(e).__name__, {"where": where, "data": d["name"], "attr": n})
                if not any(np.array_equal(got, v) for v in V[n]):
                    raise Mismatch("value-not-a-shortest-chain-composition" + ("/depth>=2" if depth[n] >= 2 else "/depth1"),
                                   {"where": where, "data": d["name"], "attr": n, "depth": depth[n], "got": got.tolist(),
                                    "admissible": [v.tolist() for v in V[n]]})
                if depth[n] >= 2:
                    self.long_chain = True
                thr = float(np.median(got))
                m = real.get_mask(self.cid[n] > thr)
                if not np.array_equal(np.asarray(m), got > thr):
                    raise Mismatch("selection-on-linked-attribute-wrong", {"where": where, "data": d["name"], "attr": n})
            for n in all_names:
                if n in exp_names:
                    continue
                try:
                    real.get_mask(self.cid[n] > 0)
                except IncompatibleAttribute:
                    continue
                raise Mismatch("unreachable-attribute-evaluates", {"where": where, "data": d["name"], "attr": n})


def fn_history(spec, rec):
    w = World(with_coords=bool(spec.get("coords")))
    for s in spec["setup"]:
        w.new_dataset(s)
    w.check("setup")
    done = 0
    for k, op in enumerate(spec["ops"]):
        if w.step(op):
            done += 1
        gc.collect()
        w.check({"step": k, "op": op})
    rec.nt(w.removal and w.add_after_removal and w.long_chain)
    rec.label("long-chain" if w.long_chain else "short-chains-only")
    if any(op[0] == "block" for op in spec["ops"]):
        rec.label("has-delay-block")
    if any(op[0] == "reappend" for op in spec["ops"]):
        rec.label("has-reappend")
    rec.label("world-coordinates" if w.has_coords else "no-world-coordinates")


# --------------------------------------------------------------------------- generator

fn_spec = st.one_of(st.tuples(st.just("shift"), st.sampled_from([1.0, -2.0, 0.5])), st.tuples(st.just("neg")),
                    st.tuples(st.just("scale"), st.sampled_from([1, -1, 2])), st.tuples(st.just("add")), st.tuples(st.just("sub")),
                    st.tuples(st.just("id"))).map(list)
idx = st.integers(0, 7)
KINDS = ["oneway", "twoway", "identity", "two", "linksame", "linktwoway", "multi12", "multi21"]

simple_op = st.one_of(
    st.tuples(st.just("link"), st.sampled_from(KINDS), idx, idx, idx, idx, idx, fn_spec),
    st.tuples(st.just("link"), st.sampled_from(KINDS), idx, idx, idx, idx, idx, fn_spec),
    st.tuples(st.just("link"), st.sampled_from(KINDS), idx, idx, idx, idx, idx, fn_spec),
    st.tuples(st.just("unlink"), idx),
    st.deferred(lambda: st.tuples(st.just("links"), st.lists(link_op, min_size=1, max_size=3))),
    st.tuples(st.just("unlinks"), st.lists(idx, min_size=1, max_size=2)),
    st.deferred(lambda: st.tuples(st.just("setlinks"), st.integers(0, 255), st.lists(link_op, max_size=2))),
    st.tuples(st.just("addcomp"), idx, idx),
    st.tuples(st.just("addderived"), idx, idx, idx, fn_spec),
    st.tuples(st.just("rmcomp"), idx, idx),
    st.tuples(st.just("remove"), idx),
    st.tuples(st.just("reappend"), idx),
    st.tuples(st.just("new"), idx),
).map(list)

op = st.one_of(simple_op, simple_op, simple_op,
               st.tuples(st.just("block"), st.sampled_from(["lm", "cb"]), st.lists(simple_op, min_size=1, max_size=4)).map(list))


link_op = st.tuples(st.just("link"), st.sampled_from(KINDS), idx, idx, idx, idx, idx, fn_spec).map(list)


def cases(max_ops):
    # a few links first (so that chains of length >= 2 exist), then the mixed history
    return st.builds(lambda setup, pre, ops, coords: {"setup": setup, "ops": pre + ops, "coords": coords},
                     st.lists(idx, min_size=2, max_size=4), st.lists(link_op, min_size=2, max_size=5),
                     st.lists(op, min_size=2, max_size=max_ops), st.booleans())


def multilink_cases():
    """two or three datasets with two stored attributes each, one MultiLink with unequal sides between them, then mostly removals"""
    mk = st.tuples(st.just("link"), st.sampled_from(["multi12", "multi21"]), idx, idx, idx, idx, idx, fn_spec).map(list)
    later = st.one_of(st.tuples(st.just("rmcomp"), idx, idx), st.tuples(st.just("rmcomp"), idx, idx), st.tuples(st.just("rmcomp"), idx, idx),
                      st.tuples(st.just("unlink"), idx), st.tuples(st.just("addcomp"), idx, idx), st.tuples(st.just("remove"), idx), mk).map(list)
    return st.builds(lambda setup, links, ops, coords: {"setup": setup, "ops": [["addcomp", 0, 1], ["addcomp", 1, 2], ["addcomp", 2, 3]] + links + ops, "coords": coords},
                     st.lists(idx, min_size=2, max_size=3), st.lists(mk, min_size=1, max_size=3), st.lists(later, min_size=1, max_size=6), st.booleans())


def derived_dependent_cases():
    """datasets that get own derived attributes first, then links (which may touch the derived attributes), then mostly component
    removals: removing the *input* of a derived attribute takes the derived attribute and every link that touches it along"""
    mkd = st.tuples(st.just("addderived"), idx, idx, idx, fn_spec).map(list)
    rm = st.tuples(st.just("rmcomp"), idx, idx).map(list)
    later = st.one_of(rm, rm, rm, st.tuples(st.just("unlink"), idx).map(list), st.tuples(st.just("addcomp"), idx, idx).map(list), mkd, link_op)
    return st.builds(lambda setup, ders, links, ops, coords: {"setup": setup, "ops": ders + links + ops, "coords": coords},
                     st.lists(idx, min_size=2, max_size=3), st.lists(mkd, min_size=1, max_size=3), st.lists(link_op, min_size=1, max_size=4),
                     st.lists(later, min_size=1, max_size=6), st.booleans())


def checks(tier):
    n, m = {"quick": (2000, 25), "thorough": (20000, 40)}.get(tier, (10, 25))
    return [Check("link_histories", fn_history, strategy=cases(m), examples=n),
            Check("multilink_histories", fn_history, strategy=multilink_cases(), examples=max(10, n // 4)),
            Check("derived_dependent_histories", fn_history, strategy=derived_dependent_cases(), examples=max(10, n // 4))]
