"""C14  Derived attributes compute their defining expression and go with their inputs.

Oracle: the same expression evaluated with numpy on the full input arrays (taken from the spec),
then viewed; dependency graph model for removals; value/order snapshots for update_id.
"""
import math

import numpy as np
from hypothesis import strategies as st

from .. import gen
from ..common import Check, Mismatch, blame

PROPERTY = "C14"
RULE = ("(a) data spec (1-3 dims, identity/affine coordinates) x expression tree (depth<=4) over + - * / ** with constants on either side "
        "and attributes (stored float/int, pixel, world, earlier derived) x every view form; read as a bare link and as an added derived "
        "attribute; (b) function links from a pool (vectorised, ravel-returning, constant-returning, two-input); (c) parsed text "
        "expressions from a grammar ({tag} with inner spaces, numpy/math calls, constants only), 1-3 layers where a later expression may "
        "refer to an earlier parsed attribute, view read before the full read; (d) histories of add_component / "
        "add_component_link / remove_component / update_id. Oracle: numpy evaluation on full inputs; dependency-graph model. "
        "Non-trivial (a-c) = expression mixes a broadcast input (pixel/world) with a stored one at depth>=2, or a proper view; "
        "(d) = a removal with >=1 transitive dependent and >=1 survivor, or an update_id with a dependent; distinct by spec hash.")
ASSUMPTIONS = [
    "the exponent of ** is a float constant from {2, 3, -1} (integer bases with negative integer exponents raise in numpy; numpy's own sqrt fast path for 0.5 disagrees with pow at -inf)",
    "input values are the dataset's own full-array values (so dtype and signed zeros of pixel attributes are whatever the dataset reports)",
    "arithmetic is evaluated under errstate(ignore); results compare NaN-equal and exactly (element-wise ops do not depend on broadcasting)",
]

OPS = {"+": np.add, "-": np.subtract, "*": np.multiply, "/": np.true_divide, "**": np.power}


def leaf_values(data, leaf, derived_vals):
    """current values of an input, as the dataset reports them (full array)"""
    if "k" in leaf:
        return leaf["k"]
    if "d" in leaf:
        return derived_vals[leaf["d"]]
    return np.array(data[gen.ref_cid(data, leaf["ref"])])


def model_expr(data, e, derived_vals):
    import operator
    if "op" not in e:
        return leaf_values(data, e, derived_vals)
    l = model_expr(data, e["l"], derived_vals)
    r = model_expr(data, e["r"], derived_vals)
    f = {"+": operator.add, "-": operator.sub, "*": operator.mul, "/": operator.truediv, "**": operator.pow}[e["op"]]
    with np.errstate(all="ignore"):
        return f(l, r)


def build_expr(data, e, derived_cids):
    import operator
    if "op" not in e:
        if "k" in e:
            return e["k"]
        if "d" in e:
            return derived_cids[e["d"]]
        return gen.ref_cid(data, e["ref"])
    l = build_expr(data, e["l"], derived_cids)
    r = build_expr(data, e["r"], derived_cids)
    f = {"+": operator.add, "-": operator.sub, "*": operator.mul, "/": operator.truediv, "**": operator.pow}[e["op"]]
    return f(l, r)


def expr_has(e, pred):
    if "op" not in e:
        return pred(e)
    return expr_has(e["l"], pred) or expr_has(e["r"], pred)


def expr_depth(e):
    return 0 if "op" not in e else 1 + max(expr_depth(e["l"]), expr_depth(e["r"]))


def is_const(e):
    """constant expressions and bare attributes are not links: they are skipped"""
    if "op" not in e:
        return True
    def allconst(x):
        return ("k" in x) if "op" not in x else (allconst(x["l"]) and allconst(x["r"]))
    return allconst(e)


def compare(got, exp, sig, extra=None):
    got = np.asarray(got)
    exp = np.asarray(exp)
    if got.shape != exp.shape:
        raise Mismatch(sig + "/shape", {"got": list(got.shape), "expected": list(exp.shape), "x": extra})
    g, e = got.astype(float), exp.astype(float)
    if not gen.eq_nan(g, e):
        # numpy evaluates `x ** 2` (and small integer powers) through different routines for arrays, 0-d arrays and scalars,
        # which may differ in the last bit; the oracle and glue need not hand numpy the same form, so a few ulp are allowed
        with np.errstate(all="ignore"):
            close = np.isclose(g, e, rtol=8 * np.finfo(float).eps, atol=0.0, equal_nan=True) | (g == e)
        if not bool(np.all(close)):
            raise Mismatch(sig + "/values", {"got": got.tolist(), "expected": exp.tolist(), "x": extra})


def fn_expr(spec, rec):
    dspec = spec["data"]
    data = gen.build_data(dspec)
    shape = tuple(dspec["shape"])
    derived_vals, derived_cids = [], []
    for j, e in enumerate(spec["exprs"]):
        if is_const(e):
            continue
        full = np.broadcast_to(np.asarray(model_expr(data, e, derived_vals), dtype=float), shape)
        link = build_expr(data, e, derived_cids)
        vs = spec["view"]
        view = gen.build_view(vs, shape)
        exp_view = full if view is None else full[view]
        # read through the bare link
        compare(data[link], full, "bare-link/full", e)
        compare(data[link, view], exp_view, "bare-link/view/" + vs[0], e)
        # and as an added derived attribute
        data.add_component(link, "der%d" % j)
        cid = data.id["der%d" % j]
        compare(data[cid], full, "derived/full", e)
        compare(data[cid, view], exp_view, "derived/view/" + vs[0], e)
        comp = data.get_component(cid)
        compare(comp.data, full, "derived/component.data", e)
        if tuple(comp.shape) != shape:
            raise Mismatch("derived/component.shape", {"got": list(comp.shape), "expected": list(shape)})
        derived_vals.append(np.array(data[cid]))
        derived_cids.append(cid)
    # everything still agrees at the end (earlier derived attributes unchanged by later additions)
    for cid, full in zip(derived_cids, derived_vals):
        compare(data[cid], full, "derived/changed-by-later-additions")
    last = spec["exprs"][-1]
    mixes = expr_has(last, lambda l: "ref" in l and l["ref"][0] in ("p", "w")) and expr_has(last, lambda l: "ref" in l and l["ref"][0] == "c")
    rec.nt(bool(derived_cids) and ((mixes and expr_depth(last) >= 2) or gen.view_is_proper(spec["view"], shape)))
    rec.label("ndim:%d" % len(shape), "view:" + spec["view"][0])
    if mixes:
        rec.label("mixes-broadcast-and-stored")
    if expr_has(last, lambda l: "d" in l):
        rec.label("uses-earlier-derived")
    if expr_has(last, lambda l: "ref" in l and l["ref"][0] == "w"):
        rec.label("uses-world")


# --------------------------------------------------------------------------- function links

def f_vector(a, b):
    return a + 2 * b


def f_ravel(a):
    return (a * 2).ravel()


def f_const(a):
    return 3.0


def f_single(a):
    return a - 1


FUNCS = {"vector2": (f_vector, 2), "ravel": (f_ravel, 1), "const": (f_const, 1), "single": (f_single, 1)}


def fn_funclink(spec, rec):
    from glue.core.component_link import ComponentLink
    from glue.core.component_id import ComponentID
    dspec = spec["data"]
    data = gen.build_data(dspec)
    shape = tuple(dspec["shape"])
    f, nargs = FUNCS[spec["func"]]
    refs = spec["inputs"][:nargs]
    vals = [gen.ref_values(dspec, r).astype(float) for r in refs]
    if spec["func"] == "vector2":
        full = vals[0] + 2 * vals[1]
    elif spec["func"] == "ravel":
        full = vals[0] * 2
    elif spec["func"] == "const":
        full = np.full(shape, 3.0)
    else:
        full = vals[0] - 1
    full = np.broadcast_to(full, shape)
    to = ComponentID("fl", parent=data)
    link = ComponentLink([gen.ref_cid(data, r) for r in refs], to, using=f)
    data.add_component_link(link)
    vs = spec["view"]
    view = gen.build_view(vs, shape)
    try:
        compare(data[to], full, "function-link/%s/full" % spec["func"])
        compare(data[to, view], full if view is None else full[view], "function-link/%s/view/%s" % (spec["func"], vs[0]))
    except Mismatch:
        raise
    except Exception as e:  # noqa
        if blame(e)[0] != "glue":
            raise
        raise Mismatch("function-link-raises/%s/%s" % (spec["func"], type(e).__name__), repr(e))
    rec.nt(gen.view_is_proper(vs, shape) or any(r[0] in ("p", "w") for r in refs))
    rec.label("func:" + spec["func"], "view:" + vs[0])


# --------------------------------------------------------------------------- parsed expressions

def fn_parsed(spec, rec):
    from glue.core.parse import ParsedCommand, ParsedComponentLink
    from glue.core.component_id import ComponentID
    dspec = spec["data"]
    data = gen.build_data(dspec)
    shape = tuple(dspec["shape"])
    layers = spec.get("layers") or [{"template": spec["template"], "refs": spec["refs"]}]
    vs = spec["view"]
    view = gen.build_view(vs, shape)
    made = []          # (cid, full model values) of the parsed attributes defined so far; later layers may refer to them
    nested = False
    for li, layer in enumerate(layers):
        refs = layer["refs"]
        tags = ["t%d" % i for i in range(len(refs))]
        cmd = layer["template"]
        env = {"np": np, "math": math, "numpy": np}
        model_cmd = cmd
        references = {}
        for i, t in enumerate(tags):
            for form in ("{%s}" % t, "{ %s }" % t, "{%s }" % t):
                model_cmd = model_cmd.replace(form, "V%d" % i)
            if refs[i][0] == "parsed":
                if not made:
                    refs = list(refs)
                    refs[i] = gen.numeric_refs(dspec)[0]
                else:
                    cid_prev, vals_prev = made[refs[i][1] % len(made)]
                    env["V%d" % i] = vals_prev
                    references[t] = cid_prev
                    nested = nested or ("{t%d}" % i in cmd or "{ t%d }" % i in cmd or "{t%d }" % i in cmd)
                    continue
            env["V%d" % i] = gen.ref_values(dspec, refs[i]).astype(float)
            references[t] = gen.ref_cid(data, refs[i])
        with np.errstate(all="ignore"):
            full = eval(model_cmd, env)
        full = np.broadcast_to(np.asarray(full, dtype=float), shape)
        pc = ParsedCommand(cmd, references)
        to = ComponentID("parsed%d" % li, parent=data)
        data.add_component_link(ParsedComponentLink(to, pc))
        made.append((to, full))
        uses_tags = "{" in cmd
        tag = ("" if uses_tags else "/constant") + ("/nested" if li and nested else "")
        try:
            # the view first: what a viewer asks for, and nothing has been evaluated before it
            compare(data[to, view], full if view is None else full[view], "parsed/view/%s%s" % (vs[0], tag + ("-expression" if not uses_tags else "")))
            compare(data[to], full, "parsed/full" + tag)
        except Mismatch:
            raise
        except Exception as e:  # noqa
            if blame(e)[0] != "glue":
                raise
            raise Mismatch("parsed-raises/%s%s" % (type(e).__name__, "/nested" if li and nested else ""), repr(e))
    rec.nt(gen.view_is_proper(vs, shape))
    rec.label("parsed:" + ("tags" if uses_tags else "constant"), "view:" + vs[0], "layers:%d" % len(layers), "nested-parsed" if nested else "flat")


# --------------------------------------------------------------------------- histories

def fn_history(spec, rec):
    from glue.core import Data, DataCollection
    from glue.core.component_id import ComponentID
    n = 4
    data = Data(label="h")
    model = []      # ordered list of dict(name, cid, kind, deps, values or expr)
    base = np.arange(n, dtype=float)
    data.add_component(base + 1, "s0")
    model.append({"name": "s0", "cid": data.id["s0"], "kind": "stored", "deps": [], "vals": base + 1})
    if spec["in_collection"]:
        dc = DataCollection([data])  # noqa
    counter = [1]
    removed_with_dependents = False
    updated_with_dependent = False

    def values_of(m):
        if m["kind"] == "stored":
            return m["vals"]
        a = values_of(find(m["deps"][0]))
        if len(m["deps"]) == 2:
            return a + values_of(find(m["deps"][1])) * 2
        return a * 2 + m["k"]

    # the pixel attribute can be an input of derived attributes and the target of update_id, but is never removed
    pix = {"name": "pix", "cid": data.pixel_component_ids[0], "kind": "stored", "deps": [], "vals": base.copy()}

    def find(name):
        for m in model + [pix]:
            if m["name"] == name:
                return m
        raise KeyError(name)

    def check(where):
        comps = [c for c in data.components if c not in data.coordinate_components]
        if [id(c) for c in comps] != [id(m["cid"]) for m in model]:
            raise Mismatch("component-set-or-order-differs", {"where": where, "got": [str(c) for c in comps], "expected": [m["name"] for m in model]})
        if len(data.pixel_component_ids) != 1 or data.pixel_component_ids[0] is not pix["cid"]:
            raise Mismatch("pixel-attribute-list-differs-after-" + where[0], {"where": where, "got": [str(c) for c in data.pixel_component_ids]})
        for m in model + [pix]:
            try:
                got = data[m["cid"]]
            except Exception as e:  # noqa
                if blame(e)[0] != "glue":
                    raise
                raise Mismatch("derived-unreadable-after-" + where[0] + "/" + type(e).__name__, {"where": where, "attr": m["name"]})
            if not np.array_equal(np.asarray(got, dtype=float), values_of(m)):
                raise Mismatch("value-changed-after-" + where[0], {"where": where, "attr": m["name"], "got": np.asarray(got).tolist(), "expected": values_of(m).tolist()})

    check(("setup",))
    for k, op in enumerate(spec["ops"]):
        kind = op[0]
        if kind == "stored":
            name = "s%d" % counter[0]
            counter[0] += 1
            vals = base * (op[1] % 3) + op[1]
            data.add_component(vals, name)
            model.append({"name": name, "cid": data.id[name], "kind": "stored", "deps": [], "vals": vals})
        elif kind == "derived":
            sources = model + [pix]
            src = sources[op[1] % len(sources)]
            name = "v%d" % counter[0]
            counter[0] += 1
            if op[3] and len(model) > 1:
                src2 = sources[op[2] % len(sources)]
                data.add_component(src["cid"] + src2["cid"] * 2, name)
                cid = data.id[name]
                model.append({"name": name, "cid": cid, "kind": "derived", "deps": [src["name"], src2["name"]]})
            else:
                kk = float(op[2])
                data.add_component(src["cid"] * 2 + kk, name)
                cid = data.id[name]
                model.append({"name": name, "cid": cid, "kind": "derived", "deps": [src["name"]], "k": kk})
        elif kind == "remove":
            if len(model) <= 1:
                continue
            target = model[op[1] % len(model)]
            gone = {target["name"]}
            changed = True
            while changed:
                changed = False
                for m in model:
                    if m["name"] not in gone and any(d in gone for d in m["deps"]):
                        gone.add(m["name"])
                        changed = True
            if len(gone) == len(model):
                continue
            data.remove_component(target["cid"])
            if len(gone) > 1:
                removed_with_dependents = True
            model[:] = [m for m in model if m["name"] not in gone]
        elif kind == "reorder":
            # the listing order of attributes is free: a derived attribute may end up in front of its inputs
            if len(model) < 2:
                continue
            i, j = op[1] % len(model), op[2] % len(model)
            if i == j:
                continue
            model[i], model[j] = model[j], model[i]
            order = [c for c in data.components if c in data.coordinate_components] + [m["cid"] for m in model]
            data.reorder_components(order)
            rec.label("reordered")
        elif kind == "redefine":
            # a derived attribute is given a new definition under its existing identifier (it keeps its position), possibly in
            # terms of an attribute listed after it
            derived = [m for m in model if m["kind"] == "derived"]
            if not derived:
                continue
            target = derived[op[1] % len(derived)]

            def depends_on(m, name, seen=()):
                return any(d == name or (d not in seen and depends_on(find(d), name, seen + (d,))) for d in m["deps"])
            cands = [m for m in model + [pix] if m is not target and not depends_on(m, target["name"])]
            if not cands:
                continue
            src = cands[op[2] % len(cands)]
            kk = float(op[1] % 3)
            data.add_component(src["cid"] * 2 + kk, target["cid"])
            target["deps"] = [src["name"]]
            target["k"] = kk
            rec.label("redefined")
        elif kind == "update_id":
            sources = model + [pix]
            target = sources[op[1] % len(sources)]
            if target is pix:
                from glue.core.component_id import PixelComponentID
                new = PixelComponentID(0, target["name"] + "n")
                rec.label("update_id-of-pixel-attribute")
            else:
                new = ComponentID(target["name"] + "n")
            if any(target["name"] in m["deps"] for m in model):
                updated_with_dependent = True
            data.update_id(target["cid"], new)
            old_name = target["name"]
            target["cid"] = new
            target["name"] = old_name + "n"
            for m in model:
                m["deps"] = [target["name"] if d == old_name else d for d in m["deps"]]
        check((kind, k))
    rec.nt(removed_with_dependents or updated_with_dependent)
    if removed_with_dependents:
        rec.label("removal-with-dependents")
    if updated_with_dependent:
        rec.label("update_id-with-dependent")


# --------------------------------------------------------------------------- generators

def leaf(dspec, nderived):
    nums = gen.numeric_refs(dspec)
    opts = [st.builds(lambda r: {"ref": r}, st.sampled_from(nums)), st.builds(lambda r: {"ref": r}, st.sampled_from(nums)),
            st.builds(lambda k: {"k": k}, st.sampled_from([2.0, -1.0, 0.5, 3.0, 0.0, 2, -3]))]
    if nderived:
        opts.append(st.builds(lambda d: {"d": d}, st.integers(0, nderived - 1)))
    return st.one_of(*opts)


def expr_strategy(dspec, nderived):
    lf = leaf(dspec, nderived)

    def extend(ch):
        return st.one_of(
            st.builds(lambda o, l, r: {"op": o, "l": l, "r": r}, st.sampled_from(["+", "-", "*", "/", "+", "*"]), ch, ch),
            st.builds(lambda l, k: {"op": "**", "l": l, "r": {"k": k}}, ch, st.sampled_from([2.0, -1.0, 3.0])),
            st.builds(lambda k, r: {"op": "**", "l": {"k": k}, "r": r}, st.sampled_from([2.0, 0.5]), ch),      # constant ** attribute
        )
    def no_constant_subtree(e):
        # Python itself would fold "constant op constant" before glue sees it (and with Python, not numpy, semantics)
        if "op" not in e:
            return True
        def allconst(x):
            return ("k" in x) if "op" not in x else (allconst(x["l"]) and allconst(x["r"]))
        if allconst(e["l"]) and allconst(e["r"]):
            return False
        return no_constant_subtree(e["l"]) and no_constant_subtree(e["r"])
    return st.recursive(lf, extend, max_leaves=6).filter(no_constant_subtree)


@st.composite
def expr_cases(draw):
    dspec = draw(gen.data_spec(max_dims=3, max_side=4, kinds=("float", "float", "int"), max_comps=2))
    n = draw(st.integers(1, 3))
    exprs = []
    nd = 0
    for _ in range(n):
        e = draw(expr_strategy(dspec, nd))
        exprs.append(e)
        if not is_const(e):
            nd += 1
    return {"data": dspec, "exprs": exprs, "view": draw(gen.view_spec(dspec["shape"]))}


@st.composite
def func_cases(draw):
    dspec = draw(gen.data_spec(max_dims=3, max_side=4, kinds=("float", "int"), max_comps=2))
    nums = gen.numeric_refs(dspec)
    return {"data": dspec, "func": draw(st.sampled_from(sorted(FUNCS))), "inputs": [draw(st.sampled_from(nums)), draw(st.sampled_from(nums))],
            "view": draw(gen.view_spec(dspec["shape"]))}


TEMPLATES = ["{t0} + 2 * {t1}", "{ t0 } * {t1 } - 1", "np.sqrt(np.abs({t0}))", "{t0} ** 2", "np.maximum({t0}, {t1})", "math.pi * {t0}",
             "3.0", "2 * 1.5", "math.pi", "{t0} / ({t1} + 1)", "np.where({t0} > 1, {t0}, {t1})"]


@st.composite
def parsed_cases(draw):
    dspec = draw(gen.data_spec(max_dims=3, max_side=4, kinds=("float", "int"), max_comps=2))
    nums = gen.numeric_refs(dspec)
    layers = []
    for li in range(draw(st.sampled_from([1, 1, 2, 3]))):
        ref = st.sampled_from(nums) if li == 0 else st.one_of(st.sampled_from(nums), st.tuples(st.just("parsed"), st.integers(0, 2)).map(list))
        layers.append({"template": draw(st.sampled_from(TEMPLATES)), "refs": [draw(ref), draw(ref)]})
    return {"data": dspec, "layers": layers, "view": draw(gen.view_spec(dspec["shape"]))}


idx = st.integers(0, 6)
hist_op = st.one_of(st.tuples(st.just("stored"), idx), st.tuples(st.just("derived"), idx, idx, st.booleans()),
                    st.tuples(st.just("derived"), idx, idx, st.booleans()), st.tuples(st.just("remove"), idx),
                    st.tuples(st.just("update_id"), idx), st.tuples(st.just("reorder"), idx, idx), st.tuples(st.just("redefine"), idx, idx)).map(list)
hist_cases = st.fixed_dictionaries({"in_collection": st.booleans(), "ops": st.lists(hist_op, min_size=2, max_size=12)})


def checks(tier):
    n = {"quick": (5000, 1600, 2000, 1600), "thorough": (50000, 16000, 20000, 16000)}.get(tier, (10, 10, 10, 10))
    return [
        Check("expressions", fn_expr, strategy=expr_cases(), examples=n[0]),
        Check("function_links", fn_funclink, strategy=func_cases(), examples=n[1]),
        Check("parsed_expressions", fn_parsed, strategy=parsed_cases(), examples=n[2]),
        Check("histories", fn_history, strategy=hist_cases, examples=n[3]),
    ]
