"""C20  Chunk, slice and broadcast helpers are exact  (exhaustive enumeration to a bound).

Every check enumerates a finite domain completely (sharded by block over the worker
processes).  A block is one outer coordinate of the product (a shape, a first slice, ...);
the property function loops over the inner coordinates and reports bulk counts.  A failing
inner case is saved on its own (``Mismatch.spec``) so that the replay is one call.
"""
import itertools

import numpy as np

from ..common import Check, Mismatch

PROPERTY = "C20"
ENUM_DISTINCT = True
RULE = ("exhaustive enumeration: (a) iterate_chunks over every shape with 1-3 dims of 1..5 (thorough: +4 dims of 1..4) "
        "x every n_max in 1..size+1 and every fitting chunk_shape, non-trivial = more than one chunk; "
        "(b) combine_slices over every length L<=6 (thorough 8), start/stop in {None} u [-L-1,L+1], step in {None,1,2,3} "
        "(thorough +4) for both slices, non-trivial = non-empty intersection and some step>1; "
        "(c) unbroadcast / broadcast_arrays_minimal over every subset of broadcast axes x every axis permutation x "
        "slicing steps on shapes <=3-d of 1..3, non-trivial = at least one broadcast axis of size>1; "
        "(d) view_shape over every view (None, Ellipsis, ints, positive-step slices, tuples of those up to ndim, "
        "Ellipsis inside tuples, integer index arrays, boolean masks, bare lists / arrays of positions, lists of booleans) on every shape <=3-d of 1..3, non-trivial = view not None/Ellipsis; "
        "(e) categorical_ndarray / unique / index_lookup over every array over {a,b,c} of length <=5 (and 2x2, 2x3, 3x2), "
        "with and without explicit categories, every 1-d slice view; the 2-d arrays in C order, Fortran order, as a transposed view and "
        "as the transpose itself, plus transposed views of the categorical array; non-trivial = >=2 distinct values. "
        "Cases are distinct by construction of the enumeration and are counted, not hashed.")
EXHAUSTIVE = {"quick": "chunks dims<=3 of 1..5; slices L<=6 steps<=3; strides shapes<=3d of 1..3; categorical len<=5 over 3 letters",
              "thorough": "chunks +4-d of 1..4; slices L<=8 steps<=4; categorical len<=6"}
ASSUMPTIONS = [
    "combine_slices is specified for positive steps only (its docstring); negative steps are checked to raise ValueError, nothing else",
    "index_lookup/categorical codes for n-d arrays are compared through ravel() of the n-d array",
]


# --------------------------------------------------------------------------- chunks

def shapes(maxdim, maxlen):
    for nd in range(1, maxdim + 1):
        for shp in itertools.product(range(1, maxlen + 1), repeat=nd):
            yield list(shp)


def chunk_blocks(tier):
    for shp in shapes(3, 5):
        yield {"k": "chunks", "shape": shp}
    if tier == "thorough":
        for shp in itertools.product(range(1, 5), repeat=4):
            yield {"k": "chunks", "shape": list(shp)}


def _check_chunks(shape, n_max, chunk_shape):
    from glue.utils.array import iterate_chunks
    counter = np.zeros(shape, dtype=int)
    nchunks = 0
    spec = {"k": "chunks1", "shape": list(shape), "n_max": n_max, "chunk_shape": chunk_shape}
    if n_max is not None:
        it = iterate_chunks(tuple(shape), n_max=n_max)
    else:
        it = iterate_chunks(tuple(shape), chunk_shape=tuple(chunk_shape))
    for sl in it:
        nchunks += 1
        if nchunks > counter.size + 2:
            raise Mismatch("chunks/does-not-terminate", "more chunks than elements", spec)
        if len(sl) != len(shape):
            raise Mismatch("chunks/wrong-ndim", repr(sl), spec)
        sub = counter[sl]
        if n_max is not None and sub.size > n_max:
            raise Mismatch("chunks/exceeds-n_max", "chunk %r has %d > %d" % (sl, sub.size, n_max), spec)
        if chunk_shape is not None and any(a > b for a, b in zip(sub.shape, chunk_shape)):
            raise Mismatch("chunks/exceeds-chunk_shape", "chunk %r" % (sl,), spec)
        if sub.size == 0:
            raise Mismatch("chunks/empty-chunk", repr(sl), spec)
        counter[sl] += 1
    if not np.all(counter == 1):
        raise Mismatch("chunks/not-exactly-once", "visit counts %r" % counter.tolist(), spec)
    return nchunks


def fn_chunks(spec, rec):
    shape = spec["shape"]
    if spec["k"] == "chunks1":
        n = _check_chunks(shape, spec["n_max"], spec["chunk_shape"])
        rec.nt(n > 1)
        return
    size = int(np.prod(shape))
    ev = nt = 0
    for n_max in range(1, size + 2):
        n = _check_chunks(shape, n_max, None)
        ev += 1
        nt += n > 1
    for cs in itertools.product(*[range(1, s + 1) for s in shape]):
        n = _check_chunks(shape, None, list(cs))
        ev += 1
        nt += n > 1
    rec.bulk(ev, nt)


# --------------------------------------------------------------------------- combine_slices

def _sl(t):
    return slice(*t)


def slice_params(L, steps):
    vals = [None] + list(range(-L - 1, L + 2))
    for a in vals:
        for b in vals:
            for c in steps:
                yield [a, b, c]


def cs_blocks(tier):
    Lmax, steps = (8, [None, 1, 2, 3, 4]) if tier == "thorough" else (6, [None, 1, 2, 3])
    for L in range(0, Lmax + 1):
        for s1 in slice_params(L, steps):
            yield {"k": "cs", "L": L, "s1": s1, "steps": steps}


def _check_cs(L, s1, s2):
    from glue.utils.array import combine_slices
    base = range(L)
    v = base[_sl(s1)]
    chosen = set(base[_sl(s2)])
    expected = [i for i, e in enumerate(v) if e in chosen]
    spec = {"k": "cs1", "L": L, "s1": s1, "s2": s2}
    res = combine_slices(_sl(s1), _sl(s2), L)
    if not isinstance(res, slice):
        raise Mismatch("combine_slices/not-a-slice", repr(res), spec)
    got = list(range(len(v))[res])
    if got != expected:
        raise Mismatch("combine_slices/wrong-positions", {"got": got, "expected": expected, "result": repr(res)}, spec)
    return len(expected) > 0 and ((s1[2] or 1) > 1 or (s2[2] or 1) > 1)


def fn_cs(spec, rec):
    if spec["k"] == "cs1":
        rec.nt(_check_cs(spec["L"], spec["s1"], spec["s2"]))
        return
    if spec["k"] == "csneg":
        from glue.utils.array import combine_slices
        try:
            combine_slices(_sl(spec["s1"]), _sl(spec["s2"]), spec["L"])
        except ValueError:
            rec.nt(True)
            return
        raise Mismatch("combine_slices/negative-step-accepted", None)
    ev = nt = 0
    L = spec["L"]
    for s2 in slice_params(L, spec["steps"]):
        nt += _check_cs(L, spec["s1"], s2)
        ev += 1
    rec.bulk(ev, nt)


def csneg_cases(tier):
    for L in (1, 3, 5):
        for a, b in ((None, None), (0, 3), (4, 1)):
            yield {"k": "csneg", "L": L, "s1": [a, b, -1], "s2": [None, None, 1]}
            yield {"k": "csneg", "L": L, "s1": [None, None, 2], "s2": [a, b, -2]}


# --------------------------------------------------------------------------- unbroadcast

def shapes0(maxdim, maxlen):
    for nd in range(1, maxdim + 1):
        for shp in itertools.product(range(0, maxlen + 1), repeat=nd):
            yield list(shp)


def ub_blocks(tier):
    for shp in shapes0(3, 3):
        nd = len(shp)
        for bmask in itertools.product([0, 1], repeat=nd):
            for perm in itertools.permutations(range(nd)):
                for steps in itertools.product([1, 2], repeat=nd):
                    yield {"k": "ub", "shape": shp, "bcast": list(bmask), "perm": list(perm), "steps": list(steps)}


def _make_strided(shape, bcast, perm, steps, offset=0):
    """An array of `shape` whose axes flagged in bcast are stride-0 broadcast axes, built
    from a base that is transposed and sliced with steps (so non-broadcast strides are irregular)."""
    nd = len(shape)
    base_shape = [1 if bcast[i] else max(shape[i], 1) * steps[i] for i in range(nd)]
    # allocate in permuted memory order
    mem_shape = [base_shape[p] for p in perm]
    base = (np.arange(int(np.prod(mem_shape)), dtype=float) + offset).reshape(mem_shape)
    inv = np.argsort(perm)
    base = base.transpose(inv)  # axes back in logical order, memory order permuted
    sl = tuple(slice(None) if bcast[i] else slice(None, shape[i] * steps[i], steps[i]) for i in range(nd))
    small = base[sl]
    return np.broadcast_to(small, shape), small


def fn_ub(spec, rec):
    from glue.utils.array import unbroadcast, broadcast_arrays_minimal
    shape, bcast = spec["shape"], spec["bcast"]
    arr, small = _make_strided(shape, bcast, spec["perm"], spec["steps"])
    res = unbroadcast(arr)
    exp_shape = tuple(1 if bcast[i] else shape[i] for i in range(len(shape)))
    if 0 in shape:
        # an empty array has nothing to remove: anything that broadcasts back to it and is itself empty is fine
        if res.size != 0:
            raise Mismatch("unbroadcast/empty-array-gained-elements", {"shape": shape, "got": list(res.shape)})
        if np.broadcast_to(res, shape).shape != tuple(shape):
            raise Mismatch("unbroadcast/empty-array-shape", None)
        r1, r2 = broadcast_arrays_minimal(arr, arr)
        if r1.size != 0:
            raise Mismatch("broadcast_arrays_minimal/empty-array-gained-elements", None)
        rec.nt(any(bcast))
        return
    if tuple(res.shape) != exp_shape:
        raise Mismatch("unbroadcast/not-minimal", {"got": list(res.shape), "expected": list(exp_shape)})
    if not np.array_equal(np.broadcast_to(res, shape), arr):
        raise Mismatch("unbroadcast/values-differ", None)
    # pair with a second array broadcast along the complementary pattern rotated by one
    nd = len(shape)
    b2 = bcast[1:] + bcast[:1]
    arr2, _ = _make_strided(shape, b2, spec["perm"][::-1], spec["steps"], offset=100)
    r1, r2 = broadcast_arrays_minimal(arr, arr2)
    exp2 = tuple(1 if (bcast[i] and b2[i]) else shape[i] for i in range(nd))
    if tuple(r1.shape) != exp2 or tuple(r2.shape) != exp2:
        raise Mismatch("broadcast_arrays_minimal/shape", {"got": [list(r1.shape), list(r2.shape)], "expected": list(exp2)})
    if not (np.array_equal(np.broadcast_to(r1, shape), arr) and np.array_equal(np.broadcast_to(r2, shape), arr2)):
        raise Mismatch("broadcast_arrays_minimal/values-differ", None)
    # 0-d and plain arrays are returned unchanged in value
    z = np.float64(3.0) * np.ones(())
    if unbroadcast(z).shape != () or unbroadcast(z) != 3.0:
        raise Mismatch("unbroadcast/0-d", None)
    rec.nt(any(b and s > 1 for b, s in zip(bcast, shape)))


# --------------------------------------------------------------------------- view_shape

def _axis_items(n):
    items = [("i", i) for i in range(-n, n)]
    vals = [None] + list(range(-n - 1, n + 2))
    for a in vals:
        for b in vals:
            for c in (None, 1, 2):
                items.append(("s", [a, b, c]))
    return items


def _mk_item(it):
    return it[1] if it[0] == "i" else slice(*it[1])


def vs_blocks(tier):
    for shp in shapes(3, 3):
        yield {"k": "vs", "shape": shp}


def _vs_one(shape, view, vspec):
    from glue.utils.array import view_shape
    # view=None means "no view" in glue (not numpy's newaxis)
    expected = tuple(shape) if view is None else np.zeros(shape)[view].shape
    got = view_shape(tuple(shape), view)
    if tuple(got) != tuple(expected):
        raise Mismatch("view_shape/wrong", {"got": list(got), "expected": list(expected)},
                       {"k": "vs1", "shape": shape, "view": vspec})


def _build_view(vspec):
    kind = vspec[0]
    if kind == "none":
        return None
    if kind == "ellipsis":
        return Ellipsis
    if kind == "item":
        return _mk_item(vspec[1])
    if kind == "tuple":
        return tuple(Ellipsis if it == "..." else _mk_item(it) for it in vspec[1])
    if kind == "fancy":
        return tuple(np.array(a, dtype=int) for a in vspec[1])
    if kind == "bool":
        return np.array(vspec[1], dtype=bool)
    if kind == "list":          # a bare Python list of positions (or of booleans) along the first axis
        return list(vspec[1])
    if kind == "array1":        # a bare 1-d index array (not wrapped in a tuple)
        return np.array(vspec[1], dtype=int)
    if kind == "tuple-of-lists":
        return tuple(list(a) for a in vspec[1])
    raise ValueError(kind)


def _views(shape):
    nd = len(shape)
    yield ["none"]
    yield ["ellipsis"]
    for it in _axis_items(shape[0]):
        yield ["item", it]
    # tuples: short axis alphabet per axis to keep the product finite but complete for shape logic
    def short(n):
        out = [("i", 0), ("i", n - 1), ("i", -1), ("s", [None, None, None]), ("s", [1, None, None]),
               ("s", [None, -1, None]), ("s", [0, n, 2]), ("s", [1, n + 1, 2]), ("s", [n, None, None]),
               ("s", [-n - 1, 1, 1])]
        return out
    for k in range(1, nd + 1):
        for combo in itertools.product(*[short(shape[i]) for i in range(k)]):
            yield ["tuple", [list(c) for c in combo]]
            if k < nd:
                yield ["tuple", [list(c) for c in combo] + ["..."]]
        if k < nd:
            for combo in itertools.product(*[short(shape[nd - k + i]) for i in range(k)]):
                yield ["tuple", ["..."] + [list(c) for c in combo]]
    # integer index arrays (one per axis, broadcast-compatible) and boolean masks
    size = int(np.prod(shape))
    for idx_shape in ([1], [2], [2, 2]):
        n = int(np.prod(idx_shape))
        arrs = []
        for ax in range(nd):
            a = (np.arange(n) * (ax + 1)) % shape[ax]
            arrs.append(a.reshape(idx_shape).tolist())
        yield ["fancy", arrs]
    for pattern in range(min(2 ** size, 64)):
        bits = [(pattern >> i) & 1 for i in range(size)]
        yield ["bool", np.array(bits).reshape(shape).tolist()]
    # bare lists and bare arrays of positions along the first axis, lists of booleans, tuples of lists
    n0 = shape[0]
    for pos in ([0], [n0 - 1], [0, n0 - 1], [-1, 0, 0], list(range(n0)), []):
        yield ["list", pos]
        yield ["array1", pos]
    for pattern in range(2 ** n0):
        yield ["list", [bool((pattern >> i) & 1) for i in range(n0)]]
    yield ["tuple-of-lists", [[0, shape[ax] - 1] for ax in range(nd)]]


def fn_vs(spec, rec):
    shape = spec["shape"]
    if spec["k"] == "vs1":
        _vs_one(shape, _build_view(spec["view"]), spec["view"])
        rec.nt(spec["view"][0] not in ("none", "ellipsis"))
        return
    ev = nt = 0
    for vspec in _views(shape):
        _vs_one(shape, _build_view(vspec), vspec)
        ev += 1
        nt += vspec[0] not in ("none", "ellipsis")
    rec.bulk(ev, nt)


# --------------------------------------------------------------------------- categorical

ALPHA = ["a", "b", "c"]
CATSETS = [None, ["a", "b", "c"], ["c", "a", "b"], ["b", "a"], ["a", "b", "c", "d"]]


def cat_blocks(tier):
    maxlen = 6 if tier == "thorough" else 5
    for n in range(1, maxlen + 1):
        for vals in itertools.product(ALPHA, repeat=n):
            yield {"k": "cat", "values": list(vals), "shape": [n]}
    for shp in ([2, 2], [2, 3], [3, 2]):
        for vals in itertools.product(ALPHA, repeat=shp[0] * shp[1]):
            yield {"k": "cat", "values": list(vals), "shape": shp}


def _codes_expected(values, categories):
    out = []
    for v in values:
        out.append(float(categories.index(v)) if v in categories else np.nan)
    return np.array(out)


def _eq_nan(a, b):
    a = np.asarray(a, dtype=float)
    b = np.asarray(b, dtype=float)
    return a.shape == b.shape and bool(np.all((a == b) | (np.isnan(a) & np.isnan(b))))


def _layout(raw, layout):
    """memory layouts of the same values: C order, Fortran order, or a transposed view of a C-ordered array"""
    if layout == "f":
        return np.asfortranarray(raw)
    if layout == "t":
        return np.ascontiguousarray(raw.T).T
    return raw


def _cat_one(values, shape, cats, view, layout="c"):
    from glue.utils.array import categorical_ndarray
    spec = {"k": "cat1", "values": values, "shape": shape, "cats": cats, "view": view, "layout": layout}
    raw = np.array(values).reshape(shape)
    if layout == "T":          # the transpose itself: other shape, non-contiguous
        raw = raw.T
    else:
        raw = _layout(raw, layout)
    if cats is None:
        arr = categorical_ndarray(raw)
        categories = sorted(set(values))
    else:
        arr = categorical_ndarray(raw, categories=np.array(cats))
        categories = list(cats)
    if view == "T":            # a transposed view of the categorical array (inherits the categories)
        arr = arr.T
        raw = raw.T
    elif view == "T1":
        arr = arr.T[1:]
        raw = raw.T[1:]
    elif view is not None:
        arr = arr[slice(*view)]
        raw = raw[slice(*view)]
    try:
        got_cats = list(np.asarray(arr.categories).tolist())
        codes = np.asarray(arr.codes)
    except Exception as e:  # noqa
        from ..common import exc_signature
        sig = exc_signature(e, "categorical")
        if sig is None:
            raise
        raise Mismatch(sig + ("/nd" if len(shape) > 1 else "/1d"), repr(e), spec)
    if got_cats != categories:
        raise Mismatch("categorical/categories", {"got": got_cats, "expected": categories}, spec)
    exp = _codes_expected(raw.ravel().tolist(), categories).reshape(raw.shape)
    if not _eq_nan(codes, exp):
        raise Mismatch("categorical/codes" + ("/nd" if len(shape) > 1 else "/1d"),
                       {"got": codes.tolist(), "expected": exp.tolist()}, spec)
    # categories[codes] == values wherever the code is finite
    fin = np.isfinite(codes)
    back = np.array(categories, dtype=object)[codes[fin].astype(int)]
    if back.tolist() != np.asarray(raw)[fin].tolist():
        raise Mismatch("categorical/categories[codes]!=values", None, spec)


def fn_cat(spec, rec):
    values, shape = spec["values"], spec["shape"]
    if spec["k"] == "cat1":
        _cat_one(values, shape, spec["cats"], spec["view"], spec.get("layout", "c"))
        rec.nt(len(set(values)) > 1)
        return
    from glue.utils.array import unique, index_lookup
    ev = nt = 0
    nontriv = len(set(values)) > 1
    n0 = shape[0]
    views = [None]
    if len(shape) == 1:
        for a in [None] + list(range(0, n0)):
            for b in [None] + list(range(1, n0 + 1)):
                for c in (None, 2):
                    if (a, b, c) != (None, None, None):
                        views.append([a, b, c])
    else:
        views += [[None, 1, None], [1, None, None], "T", "T1"]
    layouts = ["c"] if len(shape) == 1 else ["c", "f", "t", "T"]
    for cats in CATSETS:
        for view in views:
            for layout in layouts:
                _cat_one(values, shape, cats, view, layout)
                ev += 1
                nt += nontriv
    # unique(): U sorted unique, U[I] == array
    raw = np.array(values).reshape(shape)
    U, I = unique(raw)
    if U.tolist() != sorted(set(values)) or not np.array_equal(U[I], raw) or I.shape != raw.shape:
        raise Mismatch("unique/wrong", {"U": U.tolist(), "I": I.tolist()})
    ev += 1
    nt += nontriv
    for cats in CATSETS[1:]:
        for layout in layouts:
            arr = raw.T if layout == "T" else _layout(raw, layout)
            r = index_lookup(arr, np.array(cats))
            exp = _codes_expected(arr.ravel().tolist(), cats).reshape(arr.shape)
            if not _eq_nan(r, exp):
                raise Mismatch("index_lookup/wrong" + ("" if len(shape) == 1 else "/nd/" + layout), {"got": np.asarray(r).tolist(), "expected": exp.tolist()},
                               {"k": "cat1", "values": values, "shape": shape, "cats": cats, "view": None, "layout": layout})
            ev += 1
            nt += nontriv
        U2, I2 = unique(raw.T)
        if U2.tolist() != sorted(set(values)) or not np.array_equal(U2[I2], raw.T):
            raise Mismatch("unique/wrong/transposed", None)
    rec.bulk(ev, nt)


def fn_cat_numeric(spec, rec):
    """unique/index_lookup on numeric and mixed-width string arrays."""
    from glue.utils.array import unique, index_lookup
    vals = spec["values"]
    raw = np.array(vals)
    U, I = unique(raw)
    if U.tolist() != sorted(set(raw.tolist())) or not np.array_equal(U[I], raw):
        raise Mismatch("unique/wrong-numeric", {"U": U.tolist(), "I": I.tolist()})
    items = spec["items"]
    r = index_lookup(raw, np.array(items))
    exp = _codes_expected(raw.tolist(), np.array(items).tolist())
    if not _eq_nan(r, exp):
        raise Mismatch("index_lookup/wrong-numeric", {"got": r.tolist(), "expected": exp.tolist()})
    rec.nt(len(set(vals)) > 1)


def num_cases(tier):
    pool = [0, 1, 2, -1]
    for n in range(1, 5):
        for vals in itertools.product(pool, repeat=n):
            yield {"k": "num", "values": list(vals), "items": [-1, 0, 2]}
    spool = ["a", "bb", "ccc"]
    for n in range(1, 4):
        for vals in itertools.product(spool, repeat=n):
            yield {"k": "num", "values": list(vals), "items": ["ccc", "a"]}
    fpool = [0.5, 1.5, -2.25]
    for n in range(1, 4):
        for vals in itertools.product(fpool, repeat=n):
            yield {"k": "num", "values": list(vals), "items": [1.5, 0.5, 7.0]}


def checks(tier):
    return [
        Check("chunks", fn_chunks, enum=chunk_blocks, count_distinct=False, reset=False),
        Check("combine_slices", fn_cs, enum=cs_blocks, count_distinct=False, reset=False),
        Check("combine_slices_negative", fn_cs, enum=csneg_cases, reset=False),
        Check("unbroadcast", fn_ub, enum=ub_blocks, reset=False),
        Check("view_shape", fn_vs, enum=vs_blocks, count_distinct=False, reset=False),
        Check("categorical", fn_cat, enum=cat_blocks, count_distinct=False, reset=False),
        Check("unique_lookup_numeric", fn_cat_numeric, enum=num_cases, reset=False),
    ]
