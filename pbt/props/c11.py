"""C11  Key joins propagate selections by key membership, in all four join shapes.

Oracle (join model below): Python-level key comparison *by value*; for a target T and each joined
neighbour N (not on the current search path) that can evaluate the selection, recursively, the
expected rows per the join shape.  When several neighbours qualify any of their answers is accepted.
"""
import numpy as np
from hypothesis import strategies as st

from .. import gen
from ..common import Check, Mismatch, blame

PROPERTY = "C11"
RULE = ("2-4 one-dimensional datasets with key columns of int32/int64/float/str (duplicates, differing string widths), joins 1-1, "
        "n-n (2-3 keys), 1-n, n-1 registered with Data.join_on_key or JoinLink through the collection, chains and cycles; a "
        "selection evaluable on exactly one dataset - an inequality, or a row-position (element) selection bound to it and copied 0-2 times - (or on none: 'and' over two datasets); generated earlier evaluations on other "
        "datasets (incl. incompatible ones) precede the read; JoinLinks removed from and added back to the collection between reads; views on the target. Oracle: join model by value. Non-trivial = "
        "selection not evaluable on the target, proper non-empty subset of the source, target has matching and non-matching keys; "
        "distinct by spec hash.")
ASSUMPTIONS = [
    "when several joined neighbours can evaluate the selection the code uses the first in registration order; the model accepts any neighbour's answer",
    "keys are compared by value (1 == 1.0, 'a' == 'a' whatever the dtype width); NaN keys are not generated",
    "string keys are joined with string keys and numeric keys with numeric keys only",
]

DTYPES = ["i4", "i8", "f8", "U1", "U3", "U5"]


def col_values(col, n):
    dt, vals = col["dtype"], col["vals"]
    if dt.startswith("U"):
        return np.array([str(v) for v in vals], dtype=dt)
    return np.array(vals, dtype=dt)


def build(spec):
    from glue.core import Data, DataCollection
    datas = []
    for i, ds in enumerate(spec["datasets"]):
        d = Data(label="t%d" % i)
        for j, col in enumerate(ds["cols"]):
            d.add_component(col_values(col, ds["n"]), "k%d" % j)
        datas.append(d)
    dc = DataCollection(datas) if spec.get("use_collection") else None
    links = {}
    for k, jn in enumerate(spec["joins"]):
        a, b = datas[jn["a"]], datas[jn["b"]]
        ca = [a.id["k%d" % c] for c in jn["ca"]]
        cb = [b.id["k%d" % c] for c in jn["cb"]]
        if dc is not None and len(ca) == 1 and len(cb) == 1 and jn.get("via_link"):
            from glue.core.link_helpers import JoinLink
            links[k] = JoinLink(cids1=ca, cids2=cb, data1=a, data2=b)
            dc.add_link(links[k])
        else:
            a.join_on_key(b, ca if len(ca) > 1 else ca[0], cb if len(cb) > 1 else cb[0])
    return datas, dc, links


def pyvals(spec, di, ci):
    col = spec["datasets"][di]["cols"][ci]
    if col["dtype"].startswith("U"):
        return [str(v)[:int(col["dtype"][1:])] for v in col["vals"]]
    return [float(v) for v in col["vals"]]


def neighbours(spec, t):
    """registration order of T's joins: (neighbour index, T's key columns, neighbour's key columns); later joins of the same pair overwrite"""
    out = {}
    for jn in spec["joins"]:
        if jn["a"] == t:
            out[jn["b"]] = (jn["ca"], jn["cb"])
        if jn["b"] == t:
            out[jn["a"]] = (jn["cb"], jn["ca"])
    return out


def join_mask(spec, t, n, ct, cn, mask_n):
    nt = spec["datasets"][t]["n"]
    sel = [i for i, m in enumerate(mask_n) if m]
    if len(ct) == 1 and len(cn) == 1:
        keys = set(pyvals(spec, n, cn[0])[i] for i in sel)
        return [v in keys for v in pyvals(spec, t, ct[0])]
    if len(ct) == len(cn):
        cols_n = [pyvals(spec, n, c) for c in cn]
        keys = set(tuple(col[i] for col in cols_n) for i in sel)
        cols_t = [pyvals(spec, t, c) for c in ct]
        return [tuple(col[i] for col in cols_t) in keys for i in range(nt)]
    if len(ct) == 1:
        keys = set()
        for c in cn:
            v = pyvals(spec, n, c)
            keys |= set(v[i] for i in sel)
        return [v in keys for v in pyvals(spec, t, ct[0])]
    keys = set(pyvals(spec, n, cn[0])[i] for i in sel)
    out = [False] * nt
    for c in ct:
        v = pyvals(spec, t, c)
        out = [o or (x in keys) for o, x in zip(out, v)]
    return out


def direct_mask(spec, t):
    """mask of the selection on dataset t if it is evaluable there, else None"""
    sel = spec["selection"]
    if sel["kind"] == "none":
        return None
    if sel["kind"] == "two":
        return None
    if sel["data"] != t:
        return None
    if sel["kind"] == "element":
        return [i in sel["indices"] for i in range(spec["datasets"][t]["n"])]
    vals = pyvals(spec, t, sel["col"])
    thr = sel["thr"]
    if isinstance(vals[0], str):
        return [v == thr for v in vals] if sel["op"] == "eq" else [v != thr for v in vals]
    return [gen.OPS[sel["op"]](v, thr) for v in vals]


def model(spec, t, path):
    d = direct_mask(spec, t)
    if d is not None:
        return [d]
    results = []
    for n, (ct, cn) in neighbours(spec, t).items():
        if n in path or n == t:
            continue
        for m in model(spec, n, path + [t]):
            r = join_mask(spec, t, n, ct, cn, m)
            if r not in results:
                results.append(r)
    return results


def build_selection(spec, datas):
    from glue.core.subset import InequalitySubsetState, AndState
    sel = spec["selection"]

    def one(di, ci, op, thr):
        return InequalitySubsetState(datas[di].id["k%d" % ci], thr, gen.OPS[op])
    if sel["kind"] == "one":
        return one(sel["data"], sel["col"], sel["op"], sel["thr"])
    if sel["kind"] == "element":
        # a selection of rows by position, bound to one dataset (what a table viewer makes); edit modes, paste and composites
        # hand on copies of it, and the copy is as much bound to its dataset as the original
        from glue.core.subset import ElementSubsetState
        state = ElementSubsetState(indices=list(sel["indices"]), data=datas[sel["data"]])
        for _ in range(sel.get("copies", 0)):
            state = state.copy()
        return state
    if sel["kind"] == "two":
        return AndState(one(sel["data"], sel["col"], sel["op"], sel["thr"]), one(sel["data2"], sel["col2"], "ne", sel["thr2"]))
    from glue.core import Data
    return Data(z=[1, 2, 3]).id["z"] > 1   # attribute of a dataset that is joined to nothing


def fn_join(spec, rec):
    from glue.core.exceptions import IncompatibleAttribute
    datas, dc, links = build(spec)
    state = build_selection(spec, datas)
    # earlier evaluations on other datasets (their outcome is checked too); then, optionally, joins registered as JoinLinks are
    # removed from / added back to the collection, after which every dataset is read again
    full_spec = spec
    removable = sorted(k for k in links if sum(1 for j in spec["joins"] if {j["a"], j["b"]} == {spec["joins"][k]["a"], spec["joins"][k]["b"]}) == 1)
    edits = [e for e in spec.get("edits") or [] if removable]
    order = [(t, False) for t in spec["pre"]]
    if edits:
        order.append(("edit", False))
        order += [(t, False) for t in range(len(datasets_of(spec))) if t != spec["target"]]
    order.append((spec["target"], True))
    active = set(range(len(spec["joins"])))
    removed_then_read = False
    for step, (t, last) in enumerate(order):
        if t == "edit":
            for e in edits:
                k = removable[e[1] % len(removable)]
                if e[0] == "remove" and k in active:
                    dc.remove_link(links[k])
                    active.discard(k)
                    removed_then_read = True
                elif e[0] == "readd" and k not in active:
                    dc.add_link(links[k])
                    active.add(k)
            # registration order after the edits: surviving joins in their old order, re-added ones would come last - the model
            # accepts any qualifying neighbour, so only the set matters
            spec = dict(full_spec, joins=[j for k, j in enumerate(full_spec["joins"]) if k in active])
            continue
        expected = model(spec, t, [])
        vs = spec["view"] if last else ["none"]
        view = gen.build_view(vs, (spec["datasets"][t]["n"],))
        try:
            got = datas[t].get_mask(state, view)
        except IncompatibleAttribute:
            got = None
        except RecursionError:
            raise Mismatch("unbounded-recursion", {"target": t})
        except Exception as e:  # noqa
            if blame(e)[0] != "glue":
                raise
            raise Mismatch("join-raises/%s/%s" % (type(e).__name__, shape_tag(spec, t)), repr(e))
        for d in datas:
            if getattr(d, "_recursing", False):
                raise Mismatch("recursion-guard-left-set", {"after-evaluating-on": t, "step": step})
        if not expected:
            if got is not None:
                raise Mismatch("mask-returned-although-nobody-can-evaluate", {"target": t, "got": np.asarray(got).astype(int).tolist()})
            continue
        if got is None:
            raise Mismatch("incompatible-although-a-joined-dataset-can-evaluate/" + shape_tag(spec, t) + ("/after-earlier-evaluation" if step else ""),
                           {"target": t, "step": step, "expected_any_of": expected})
        got = np.asarray(got)
        exps = [np.array(e, dtype=bool) if view is None else np.array(e, dtype=bool)[view] for e in expected]
        if not any(got.shape == e.shape and np.array_equal(got.astype(bool), e) for e in exps):
            raise Mismatch("wrong-rows/" + shape_tag(spec, t) + dtype_tag(spec, t),
                           {"target": t, "got": got.astype(int).tolist(), "expected_any_of": [e.astype(int).tolist() for e in exps]})
    spec = full_spec if not edits else spec
    t = spec["target"]
    src = direct_mask(spec, spec["selection"].get("data", 0)) if spec["selection"]["kind"] in ("one", "element") else None
    full = model(spec, t, [])
    rec.nt(direct_mask(spec, t) is None and src is not None and any(src) and not all(src) and bool(full) and any(full[0]) and not all(full[0]))
    rec.label("shape:" + shape_tag(spec, t), "sel:" + spec["selection"]["kind"], "ndata:%d" % len(datas))
    if not full:
        rec.label("expect-incompatible")
    if spec["pre"]:
        rec.label("earlier-evaluations")
    if removed_then_read:
        rec.label("join-link-removed" + ("-and-readded" if any(e[0] == "readd" for e in edits) else ""))
    if len(spec["joins"]) >= len(datas):
        rec.label("cyclic")


def datasets_of(spec):
    return spec["datasets"]


def shape_tag(spec, t):
    tags = set()
    for n, (ct, cn) in neighbours(spec, t).items():
        if len(ct) == 1 and len(cn) == 1:
            tags.add("1-1")
        elif len(ct) == len(cn):
            tags.add("n-n")
        elif len(ct) == 1:
            tags.add("1-n")
        else:
            tags.add("n-1")
    return "+".join(sorted(tags)) or "unjoined"


def dtype_tag(spec, t):
    for n, (ct, cn) in neighbours(spec, t).items():
        for a, b in zip(ct, cn):
            if spec["datasets"][t]["cols"][a]["dtype"] != spec["datasets"][n]["cols"][b]["dtype"]:
                return "/mixed-dtypes"
    return "/same-dtypes"


# --------------------------------------------------------------------------- generator

@st.composite
def join_cases(draw):
    nd = draw(st.integers(2, 4))
    family = draw(st.sampled_from(["num", "num", "str"]))
    datasets = []
    for i in range(nd):
        n = draw(st.integers(1, 6))
        ncol = draw(st.integers(1, 3))
        cols = []
        for j in range(ncol):
            if family == "num":
                dt = draw(st.sampled_from(["i4", "i8", "f8"]))
                vals = draw(st.lists(st.integers(0, 4), min_size=n, max_size=n))
            else:
                dt = draw(st.sampled_from(["U1", "U3", "U5"]))
                vals = draw(st.lists(st.sampled_from(["a", "b", "c", "ab", "abc", "b"]), min_size=n, max_size=n))
            cols.append({"dtype": dt, "vals": vals})
        datasets.append({"n": n, "cols": cols})
    joins = []
    njoin = draw(st.integers(1, nd + 1))
    for _ in range(njoin):
        a = draw(st.integers(0, nd - 1))
        b = draw(st.integers(0, nd - 1))
        if a == b:
            b = (a + 1) % nd
        na, nb = len(datasets[a]["cols"]), len(datasets[b]["cols"])
        shape = draw(st.sampled_from(["1-1", "1-1", "n-n", "1-n", "n-1"]))
        if shape == "1-1":
            ca, cb = [draw(st.integers(0, na - 1))], [draw(st.integers(0, nb - 1))]
        elif shape == "n-n":
            k = min(na, nb, draw(st.integers(2, 3)))
            ca = draw(st.permutations(range(na)))[:k]
            cb = draw(st.permutations(range(nb)))[:k]
        elif shape == "1-n":
            ca, cb = [draw(st.integers(0, na - 1))], list(range(nb))
        else:
            ca, cb = list(range(na)), [draw(st.integers(0, nb - 1))]
        # registering an equal JoinLink twice is the unspecified corner of LinkManager.add_link (DESIGN C03 S): not generated
        dup = any({j["a"], j["b"]} == {a, b} for j in joins)
        joins.append({"a": a, "b": b, "ca": list(ca), "cb": list(cb), "via_link": (not dup) and draw(st.booleans())})
    kind = draw(st.sampled_from(["one", "one", "one", "one", "two", "none", "element", "element"]))
    sd = draw(st.integers(0, nd - 1))
    sc = draw(st.integers(0, len(datasets[sd]["cols"]) - 1))
    if family == "num":
        sel = {"kind": kind, "data": sd, "col": sc, "op": draw(st.sampled_from(["gt", "ge", "lt", "eq", "ne"])), "thr": float(draw(st.integers(0, 4)))}
    else:
        sel = {"kind": kind, "data": sd, "col": sc, "op": draw(st.sampled_from(["eq", "ne"])), "thr": draw(st.sampled_from(["a", "b", "ab"]))}
    if kind == "element":
        sel = {"kind": kind, "data": sd, "indices": sorted(draw(st.sets(st.integers(0, datasets[sd]["n"] - 1), max_size=datasets[sd]["n"]))),
               "copies": draw(st.integers(0, 2))}
    if kind == "two":
        sd2 = (sd + 1) % nd
        sel.update({"data2": sd2, "col2": 0, "thr2": 99.0 if family == "num" else "zz"})
    target = draw(st.integers(0, nd - 1))
    partners = [j["b"] if j["a"] == sd else j["a"] for j in joins if sd in (j["a"], j["b"])]
    if partners and draw(st.integers(0, 3)) > 0:
        target = draw(st.sampled_from(partners))
    pre = draw(st.lists(st.integers(0, nd - 1), max_size=3))
    view = draw(gen.view_spec([datasets[target]["n"]], ("none", "none", "single", "bool", "fancy")))
    edits = draw(st.one_of(st.just([]), st.lists(st.tuples(st.sampled_from(["remove", "remove", "readd"]), st.integers(0, 5)).map(list), min_size=1, max_size=4)))
    return {"datasets": datasets, "joins": joins, "selection": sel, "target": target, "pre": pre, "view": view,
            "use_collection": draw(st.booleans()), "edits": edits}


def nn_mixed_cases(tier):
    """n-n joins whose key columns have different dtypes within one dataset, with keys that differ only in what a narrower dtype
    would cut off; every selection threshold, both directions"""
    import itertools
    variants = [
        # (dtypes of the two key columns, values of the second column on both sides)
        (("U1", "U5"), ["a", "ab", "abc", "a", "b"], ["ab", "a", "abc", "b", "abc"]),
        (("U5", "U1"), ["a", "ab", "abc", "a", "b"], ["ab", "a", "abc", "b", "abc"]),
        (("i8", "f8"), [1.25, 1.75, 1.0, 2.5, 1.25], [1.75, 1.25, 1.0, 2.0, 2.5]),
        (("f8", "i8"), [1.25, 1.75, 1.0, 2.5, 1.25], [1.75, 1.25, 1.0, 2.0, 2.5]),
        (("i4", "i8"), [1, 2 ** 33 + 1, 3, 1, 2], [2 ** 33 + 1, 1, 3, 2, 2 ** 33 + 1]),
    ]
    for (dt1, dt2), left, right in variants:
        strings = dt1.startswith("U")
        first = ["a", "a", "a", "b", "b"] if strings else [1, 1, 1, 2, 2]

        def col(dt, vals):
            if dt.startswith("U"):
                return {"dtype": dt, "vals": [str(v)[:int(dt[1:])] if dt == "U1" else str(v) for v in vals]}
            if dt.startswith("i"):
                return {"dtype": dt, "vals": [int(v) for v in vals]}
            return {"dtype": dt, "vals": [float(v) for v in vals]}
        # the first key column is constant-ish, the second one distinguishes the rows; a third column carries the selection
        sel_vals = [0, 1, 2, 3, 4]
        d0 = {"n": 5, "cols": [col(dt1, first), col(dt2, left), {"dtype": "i8", "vals": sel_vals}]}
        d1 = {"n": 5, "cols": [col(dt1, first), col(dt2, right), {"dtype": "i8", "vals": sel_vals}]}
        for src, thr in itertools.product((0, 1), (0.0, 1.0, 2.0, 3.0)):
            yield {"datasets": [d0, d1], "joins": [{"a": 0, "b": 1, "ca": [0, 1], "cb": [0, 1], "via_link": False}],
                   "selection": {"kind": "one", "data": src, "col": 2, "op": "gt", "thr": thr}, "target": 1 - src, "pre": [], "view": ["none"],
                   "use_collection": False, "edits": []}


def checks(tier):
    n = {"quick": 12000, "thorough": 40000}.get(tier, 10)
    return [Check("joins", fn_join, strategy=join_cases(), examples=n),
            Check("nn_joins_mixed_key_dtypes", fn_join, enum=nn_mixed_cases)]
