"""C12  Every serialisation protocol version ever registered still loads what it saved.

(1) registry laws (exhaustive over the registries + generated VersionedDict op sequences);
(2) old formats still load: a harness subclass of GlueSerializer pins one (type, version) pair,
    the unmodified GlueUnSerializer loads the result, observations must agree on the fields that
    version's saver wrote;
(3) rename table, exhaustive.
"""
import numpy as np
from hypothesis import strategies as st

from .. import session
from ..common import Check, Mismatch, blame

PROPERTY = "C12"
RULE = ("(1) every key of GlueSerializer.dispatch / GlueUnSerializer.dispatch: versions are {1..n}, savers and loaders cover the same "
        "versions, a save uses n; Hypothesis op sequences on a fresh VersionedDict vs a dict model; (2) every (type, version) with more "
        "than one registered version (Data 1-5, DataCollection 1-4 today; enumerated from the registry) x generated sessions written in "
        "that version's format by a pinning serializer and loaded by the stock unserializer; (3) every entry of state_path_patches.txt. "
        "Non-trivial (2) = >=2 datasets, a derived component and a subset group/subset with a non-constant mask; distinct by "
        "(type, version, spec hash); (1) and (3) are exhaustive.")
EXHAUSTIVE = {"quick": "all registry keys; all rename-table entries", "thorough": "all registry keys; all rename-table entries"}
ASSUMPTIONS = [
    "the fields compared for an old version are those its saver emits: values/labels/order/masks always; style from Data v2; key joins from Data v3; uuid from v4; meta from v5; subset groups from DataCollection v2",
    "generated sessions respect what a format could express when it was current: DataCollection v1 sessions carry plain Subsets (the loader must coerce them into one group per label); Data v3 records carry single-attribute joins stored as single ids",
    "rename targets outside the glue package (glue_qt, ...) are only required to terminate, not to resolve",
]


# --------------------------------------------------------------------------- (1) registry laws

def registry_cases(tier):
    from glue.core.state import GlueSerializer, GlueUnSerializer
    keys = sorted(set(GlueSerializer.dispatch._data) | set(GlueUnSerializer.dispatch._data), key=lambda t: (t.__module__, t.__qualname__))
    for i, k in enumerate(keys):
        yield {"k": "registry", "index": i, "name": k.__module__ + "." + k.__qualname__}


def fn_registry(spec, rec):
    from glue.core.state import GlueSerializer, GlueUnSerializer
    S, U = GlueSerializer.dispatch, GlueUnSerializer.dispatch
    keys = sorted(set(S._data) | set(U._data), key=lambda t: (t.__module__, t.__qualname__))
    key = keys[spec["index"]]
    name = spec["name"]
    sv = sorted(S._data.get(key, {}))
    uv = sorted(U._data.get(key, {}))
    for what, vs in (("saver", sv), ("loader", uv)):
        if vs and vs != list(range(1, len(vs) + 1)):
            raise Mismatch("versions-not-consecutive-from-1/" + what, {"type": name, "versions": vs})
    # Session has a saver only (documented: no loader); a loader-only type (ndarray is saved through __gluestate__-less path) is fine
    if sv and uv and sv != uv:
        raise Mismatch("savers-and-loaders-cover-different-versions", {"type": name, "savers": sv, "loaders": uv})
    if sv:
        fun, v = S[key]
        if v != max(sv) or fun is not S.get_version(key, max(sv)):
            raise Mismatch("save-does-not-use-newest-version", {"type": name})
    rec.nt(len(sv) > 1 or len(uv) > 1)
    rec.label("versions:%d" % max(len(sv), len(uv)))


def fn_versioned_dict(spec, rec):
    from glue.core.state import VersionedDict
    d = VersionedDict()
    model = {}
    for op in spec["ops"]:
        k, key, version, val = op
        if k == "set":
            ok = (version == 1 or (version - 1) in model.get(key, {})) and version not in model.get(key, {}) and version >= 1
            try:
                d[key, version] = val
                did = True
            except (KeyError, ValueError):
                did = False
            if did != ok:
                raise Mismatch("VersionedDict-set-%s" % ("accepted-skip-or-overwrite" if did else "rejected-valid"), {"op": op, "model": model})
            if did:
                model.setdefault(key, {})[version] = val
        elif k == "get":
            if key in model:
                exp = (model[key][max(model[key])], max(model[key]))
                if d[key] != exp:
                    raise Mismatch("VersionedDict-newest-wrong", {"op": op})
                for v, x in model[key].items():
                    if d.get_version(key, v) != x:
                        raise Mismatch("VersionedDict-get_version-wrong", {"op": op})
            else:
                try:
                    d[key]
                except KeyError:
                    pass
                else:
                    raise Mismatch("VersionedDict-missing-key-returns", {"op": op})
            if (key in d) != (key in model):
                raise Mismatch("VersionedDict-contains-wrong", {"op": op})
    rec.nt(any(len(v) > 1 for v in model.values()))


# --------------------------------------------------------------------------- (2) old formats

def pinned_serializer(typ, version):
    from glue.core.state import GlueSerializer

    class Pinned(GlueSerializer):
        def _dispatch(self, obj):
            if type(obj) is typ:
                return self.dispatch.get_version(typ, version), version
            return GlueSerializer._dispatch(self, obj)
    return Pinned


def versioned_types():
    from glue.core.state import GlueSerializer
    from glue.core.data import Data
    from glue.core import DataCollection
    out = []
    for key, vs in GlueSerializer.dispatch._data.items():
        if len(vs) > 1 and key in (Data, DataCollection):
            for v in sorted(vs):
                out.append((key, v))
    return out


FIELDS = {
    ("Data", 1): {"groups"}, ("Data", 2): {"groups", "style"}, ("Data", 3): {"groups", "style", "joins"},
    ("Data", 4): {"groups", "style", "joins", "uuid"}, ("Data", 5): {"groups", "style", "joins", "uuid", "meta", "links"},
    ("DataCollection", 1): {"style", "joins", "uuid", "meta", "links"}, ("DataCollection", 2): {"groups", "style", "joins", "uuid", "meta", "links"},
    ("DataCollection", 3): {"groups", "style", "joins", "uuid", "meta", "links"}, ("DataCollection", 4): {"groups", "style", "joins", "uuid", "meta", "links"},
}


def fn_old_format(spec, rec):
    from glue.core.state import GlueUnSerializer
    pairs = versioned_types()
    typ, version = pairs[spec["pair"] % len(pairs)]
    tname = typ.__name__
    sess = spec["session"]
    plain = tname == "DataCollection" and version == 1
    if tname == "Data" and version < 3 and sess["joins"]:
        sess = dict(sess, joins=[])
    if tname == "Data" and version < 4 and any("element" in session.leaf_classes(g["state"]) for g in sess["groups"]):
        rec.label("skipped:element-selection-needs-the-uuid-of-v4")
        return
    try:
        dc = session.build_session(sess, plain_subsets=plain)
    except Exception as e:  # noqa
        if blame(e)[0] == "glue":
            rec.label("build-raises")
            return
        raise
    fields = set(FIELDS[(tname, version)])
    if plain:
        fields.add("groups")   # compared through the per-dataset subsets (labels + masks)
    before = session.observe(dc, fields)
    if any(isinstance(m, str) and m.startswith("raises") for g in before["groups"] for m in g["masks"]):
        rec.label("selection-not-evaluable")
        return
    restore = None
    if tname == "Data" and version == 3:
        # the v3 format was written when a key join held one id per side: present it that way while saving
        restore = []
        for d in dc:
            restore.append((d, dict(d._key_joins)))
            d._key_joins = {k: (v0[0], v1[0]) for k, (v0, v1) in d._key_joins.items()}
    try:
        text = pinned_serializer(typ, version)(dc, include_data=True).dumps()
    except Exception as e:  # noqa
        rec.label("loud-at-save:" + type(e).__name__)
        return
    finally:
        if restore:
            for d, kj in restore:
                d._key_joins = kj
    try:
        dc2 = GlueUnSerializer.loads(text).object("__main__")
    except Exception as e:  # noqa
        raise Mismatch("old-format-fails-to-load/%s-v%d/%s" % (tname, version, type(e).__name__), repr(e)[:400])
    # whatever the format, the loaded collection is a well-formed one: every subset of every dataset belongs to a group of the
    # collection, and every dataset has exactly one subset per group (old records with plain subsets are converted)
    gids = [id(g) for g in dc2.subset_groups]
    for d2 in dc2:
        owners = [id(getattr(s2, "group", None)) for s2 in d2.subsets]
        if any(o not in gids for o in owners):
            raise Mismatch("old-format-leaves-subset-outside-any-group/%s-v%d" % (tname, version), {"dataset": d2.label, "subsets": [s2.label for s2 in d2.subsets]})
        if sorted(owners) != sorted(gids):
            raise Mismatch("old-format-groups-and-dataset-subsets-disagree/%s-v%d" % (tname, version),
                           {"dataset": d2.label, "n_subsets": len(owners), "n_groups": len(gids)})
    after = session.observe(dc2, fields)
    nonconst = any(isinstance(m, list) and any(m) and not all(m) for d in before["datasets"] for _, m in d.get("subsets", []))
    if plain:
        # DataCollection v1: plain subsets are coerced into groups; compare datasets (incl. their subsets), not group objects
        # (one group per original subset, attached to every dataset: compare the sets of (label, mask) per dataset)
        def dedupe(o):
            o = dict(o, groups=[])
            o["datasets"] = [dict(d, subsets=sorted({repr(x) for x in d["subsets"]})) for d in o["datasets"]]
            return o
        before, after = dedupe(before), dedupe(after)
    diff = session.first_difference(before, after)
    if diff:
        parts = [p for p in diff[0].split("/") if p]
        what = parts[2] if len(parts) > 2 else parts[0]
        raise Mismatch("old-format-differs/%s-v%d/%s" % (tname, version, what), {"path": diff[0], "before": diff[1], "after": diff[2]})
    rec.nt(len(sess["datasets"]) >= 2 and any(d.get("derived") for d in sess["datasets"]) and nonconst)
    rec.label("%s-v%d" % (tname, version))


def link_kind_cases(tier):
    """every (type, version) pair x every link kind of the session generator, on one fixed two-dataset session"""
    style = {"alpha": 0.5, "color": "#ff0000", "linewidth": 1, "marker": "o", "markersize": 3}

    def ds(label, vals_a, vals_b):
        return {"comps": [{"kind": "float", "name": "a", "vals": vals_a}, {"kind": "float", "name": "b", "vals": vals_b}], "coords": None, "derived": [],
                "label": label, "meta": {}, "shape": [len(vals_a)], "style": style, "units": [None, None]}
    datasets = [ds("x", [0.0, 1.0, 2.5], [3.0, -1.0, 0.5]), ds("y", [1.0, 4.0], [2.0, 0.25])]
    group = {"label": "sel", "state": {"t": "ineq", "att": ["c", 0], "op": "gt", "val": 0.5}, "style": style}
    for pair in range(len(versioned_types())):
        for kind in ("func", "twoway", "identity", "linksame", "linktwoway", "helper2", "multilink", "mixed"):
            link = {"kind": kind, "a": [0, 0], "b": [1, 0], "a2": [0, 1], "b2": [1, 1], "fn": sorted(session.FUNCS)[0], "helper": session.HELPERS2[0]}
            yield {"pair": pair, "session": {"datasets": datasets, "links": [link], "joins": [], "groups": [group]}}


# --------------------------------------------------------------------------- (3) rename table

def rename_cases(tier):
    from glue.core.state import PATH_PATCHES
    for i, k in enumerate(sorted(PATH_PATCHES)):
        yield {"k": "rename", "index": i, "key": k}


def fn_rename(spec, rec):
    from glue.core.state import PATH_PATCHES
    from glue.utils import lookup_class
    key = spec["key"]
    if key not in PATH_PATCHES:
        raise Mismatch("rename-entry-vanished", key)
    seen = [key]
    name = key
    while name in PATH_PATCHES:
        name = PATH_PATCHES[name]
        if name in seen:
            raise Mismatch("rename-cycle", {"chain": seen + [name]})
        seen.append(name)
    final = name
    if final.split(".")[0] == "glue":
        try:
            obj = lookup_class(final)
        except Exception as e:  # noqa
            raise Mismatch("rename-target-in-glue-does-not-resolve", {"key": key, "target": final, "error": repr(e)})
        if obj is None:
            raise Mismatch("rename-target-in-glue-does-not-resolve", {"key": key, "target": final})
        # ... and the library's own resolver (what the loaders call with a record's _type) must get there from the old name
        from glue.core.state import lookup_class_with_patches
        try:
            via = lookup_class_with_patches(key)
        except Exception as e:  # noqa
            raise Mismatch("old-name-does-not-resolve-through-the-rename-table/%d-hops" % (len(seen) - 1), {"key": key, "target": final, "error": repr(e)[:200]})
        if via is not obj:
            raise Mismatch("old-name-resolves-to-another-object/%d-hops" % (len(seen) - 1), {"key": key, "target": final, "got": repr(via)[:100]})
        # a function saved under its old location (a link function, a data factory) is a record of type FunctionType: it must
        # load, through the registered loader, as the function that now lives at the target
        import types
        if isinstance(obj, types.FunctionType):
            import json
            from glue.core.state import GlueUnSerializer
            text = json.dumps({"__main__": {"_type": "types.FunctionType", "function": key}})
            try:
                loaded = GlueUnSerializer.loads(text).object("__main__")
            except Exception as e:  # noqa
                raise Mismatch("function-record-with-old-name-does-not-load", {"key": key, "target": final, "error": repr(e)[:200]})
            if loaded is not obj:
                raise Mismatch("function-record-with-old-name-loads-another-object", {"key": key, "got": repr(loaded)[:100]})
            rec.label("function-record-loaded")
    # the key must not name a concrete class that this package still defines and writes: "writes" is measured - the
    # _type values found in a session saved by this package with data, subsets, links and all four built-in viewers
    try:
        live = lookup_class(key)
    except Exception:
        live = None
    defined = isinstance(live, type) and (live.__module__ + "." + live.__qualname__) == key
    if defined and key in written_types():
        raise Mismatch("rename-captures-live-class/" + key, {"key": key, "redirects-to": final})
    if defined:
        rec.label("key-names-a-class-still-defined-but-not-written-by-a-session")
    rec.nt(len(seen) > 2 or final.split(".")[0] == "glue")
    rec.label("chain:%d" % (len(seen) - 1), "target-in-glue" if final.split(".")[0] == "glue" else "target-outside-glue")


_WRITTEN = None


def written_types():
    """every _type this package writes when saving a session with all built-in viewer kinds"""
    global _WRITTEN
    if _WRITTEN is None:
        import json
        from glue.core import Data
        from glue.core.state import GlueSerializer
        from ..viewers import make_app, VIEWERS
        app = make_app()
        d = Data(label="w", x=np.arange(6.0).reshape(2, 3), y=np.arange(6.0).reshape(2, 3) * 2)
        t = Data(label="t", a=np.arange(4.0), b=np.array(["p", "q", "p", "r"]))
        app.data_collection.append(d)
        app.data_collection.append(t)
        app.data_collection.new_subset_group(subset_state=d.id["x"] > 2)
        for name, cls in VIEWERS.items():
            app.new_data_viewer(cls, data=d if name in ("image", "profile") else t)
        rec_ = json.loads(GlueSerializer(app).dumps())
        _WRITTEN = {v.get("_type") for v in rec_.values() if isinstance(v, dict)}
        def walk(o):
            if isinstance(o, dict):
                if "_type" in o:
                    _WRITTEN.add(o["_type"])
                for x in o.values():
                    walk(x)
            elif isinstance(o, list):
                for x in o:
                    walk(x)
        walk(rec_)
    return _WRITTEN


# --------------------------------------------------------------------------- strategies

vd_op = st.tuples(st.sampled_from(["set", "set", "get"]), st.sampled_from(["a", "b", "c"]), st.integers(1, 4), st.integers(0, 9)).map(list)
vd_cases = st.fixed_dictionaries({"ops": st.lists(vd_op, min_size=1, max_size=14)})
old_cases = st.fixed_dictionaries({"pair": st.integers(0, 20), "session": session.session_spec(max_datasets=3, datetime=False)})


def checks(tier):
    n = {"quick": (1200, 1600), "thorough": (12000, 16000)}.get(tier, (10, 10))
    return [
        Check("registry_laws", fn_registry, enum=registry_cases, reset=False),
        Check("versioned_dict", fn_versioned_dict, strategy=vd_cases, examples=n[0], reset=False),
        Check("old_formats", fn_old_format, strategy=old_cases, examples=n[1]),
        Check("old_formats_link_kinds", fn_old_format, enum=link_kind_cases),
        Check("rename_table", fn_rename, enum=rename_cases, reset=False),
    ]
