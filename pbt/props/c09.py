"""C09  A drawn region becomes a selection of exactly the points the region contains.

Oracle: plotted position = value (numeric axis) or index of the label among the sorted unique
labels (categorical axis, computed by the harness from the raw labels); expected membership =
geometry oracle of the ROI at the plotted position, boundary band excepted.
"""
import math

import numpy as np
from hypothesis import strategies as st

from .. import gen
from ..common import Check, Mismatch, blame
from ..oracles import geometry as G

PROPERTY = "C09"
RULE = ("1-d tables with x and y each numeric (with NaN) or categorical (1-6 categories, duplicates) x ROI (x/y range, rectangle incl. "
        "rotated, categorical, circle, ellipse incl. rotated, polygon, annulus) with edges placed relative to the integer category "
        "positions (just below/above k, k+-0.5, outside [0, n-1]); called as the viewers call roi_to_subset_state(roi, x_att, y_att, "
        "x_categories, y_categories). Oracle: exact geometry at the plotted positions off a boundary band (widened by the polygon "
        "approximation error where the code polygonises). Non-trivial = >=1 categorical axis, selected and unselected elements, a "
        "category position within 0.5 of a region edge; distinct by spec hash.")
ASSUMPTIONS = [
    "elements whose plotted position is within the band 1e-7*scale (+ max_radius*(1-cos(pi/99)) for circle/ellipse/annulus on a categorical axis) of the boundary are not compared",
    "NaN positions are never selected (for x/y range regions only the constrained axis counts)",
    "category order is either the sorted unique labels (how glue builds categorical components from arrays) or an explicit order given to CategoricalComponent, possibly with unused categories",
]


def positions(col):
    if col["kind"] == "cat":
        cats = list(col["order"]) if col.get("order") else sorted(set(col["vals"]))
        return np.array([float(cats.index(v)) for v in col["vals"]]), cats
    return np.array(col["vals"], dtype=float), None


def fn_roi(spec, rec):
    from glue.core import Data
    from glue.core.subset import roi_to_subset_state
    n = len(spec["x"]["vals"])
    d = Data(label="t")
    from glue.core.component import CategoricalComponent
    for name in ("x", "y"):
        col = spec[name]
        if col["kind"] == "cat" and col.get("order"):
            # explicit category order (possibly with categories that no element uses)
            d.add_component(CategoricalComponent(np.array(col["vals"], dtype="U4"), categories=np.array(col["order"], dtype="U4")), name)
        else:
            arr = np.array(col["vals"], dtype="U4") if col["kind"] == "cat" else np.array(col["vals"], dtype=float)
            d.add_component(arr, name)
    px, xcats = positions(spec["x"])
    py, ycats = positions(spec["y"])
    rs = spec["roi"]
    if rs["k"] == "cat":
        roi = gen.build_roi(rs)
    else:
        roi = gen.build_roi(rs)
    xc = d.get_component(d.id["x"]).categories if xcats is not None else None
    yc = d.get_component(d.id["y"]).categories if ycats is not None else None
    if xcats is not None and list(xc) != xcats:
        raise Mismatch("categories-not-as-given", {"got": list(xc), "expected": xcats})
    tag = "%s/%s%s" % (rs["k"], "c" if xcats is not None else "n", "c" if ycats is not None else "n")
    rotated = rs.get("theta", 0.0) != 0.0
    try:
        state = roi_to_subset_state(roi, x_att=d.id["x"], y_att=d.id["y"], x_categories=xc, y_categories=yc)
        got = np.asarray(d.get_mask(state))
    except Exception as e:  # noqa
        if blame(e)[0] != "glue":
            raise
        raise Mismatch("roi_to_subset_state-raises/%s/%s" % (type(e).__name__, tag), repr(e))
    if got.shape != (n,) or got.dtype != bool:
        raise Mismatch("mask-shape-or-dtype/" + tag, {"shape": list(got.shape), "dtype": str(got.dtype)})
    # a range region constrains one axis only (the histogram/profile viewers have no other axis at all)
    if rs["k"] in ("xrange", "cat"):
        nan = np.isnan(px)
    elif rs["k"] == "yrange":
        nan = np.isnan(py)
    else:
        nan = np.isnan(px) | np.isnan(py)
    if rs["k"] == "cat":
        exp = np.isin(np.array(spec["x"]["vals"]), rs["cats"])
        ok = np.ones(n, dtype=bool)
        d_signed = np.where(exp, 1.0, -1.0)
    else:
        sx = np.where(nan, 0.0, px)
        sy = np.where(nan, 0.0, py)
        widen = 0.0
        if rs["k"] in ("circ", "ellipse", "annulus") and (xcats is not None or ycats is not None):
            rmax = rs.get("r") or rs.get("ro") or max(rs.get("rx", 0), rs.get("ry", 0))
            widen = rmax * (1 - math.cos(math.pi / 99)) * 1.01
        d_signed = G.signed(rs, sx, sy, rho=widen + 3e-7 * G.scale_of(rs))
        ok = np.abs(d_signed) > G.tau(rs, sx, sy) + widen
        if rs["k"] == "annulus" and widen:
            ok &= G.seg_dist(sx, sy, rs["xc"] + rs["ri"], rs["yc"], rs["xc"] + rs["ro"], rs["yc"]) > widen + G.tau(rs, sx, sy)
        exp = d_signed > 0
    if (got & nan).any():
        raise Mismatch("nan-position-selected/" + tag, None)
    bad = ok & ~nan & (got != exp)
    if bad.any():
        i = int(np.argmax(bad))
        raise Mismatch("wrong-membership/%s%s" % (tag, "/rotated" if rotated else ""),
                       {"element": i, "position": [float(px[i]), float(py[i])], "got": bool(got[i]), "signed_distance": float(d_signed[i]),
                        "state": type(state).__name__})
    cat_axis = xcats is not None or ycats is not None
    near = False
    if rs["k"] != "cat":
        near = bool(np.any(ok & ~nan & (np.abs(d_signed) <= 0.5)))
    sel = got[~nan]
    rec.nt(cat_axis and sel.any() and not sel.all() and (near or rs["k"] == "cat"))
    if spec["x"].get("order") or spec["y"].get("order"):
        rec.label("explicit-category-order")
    rec.label("roi:" + rs["k"] + ("/rotated" if rotated else ""), "axes:" + tag.split("/")[1], "state:" + type(state).__name__)


# --------------------------------------------------------------------------- generator

edge = st.one_of(st.integers(-1, 6).map(float), st.integers(-1, 6).map(lambda k: k + 0.5), st.integers(0, 5).map(lambda k: k - 0.01),
                 st.integers(0, 5).map(lambda k: k + 0.01), st.floats(-1.5, 6.5, allow_nan=False, width=32))
extent = st.sampled_from([0.3, 0.5, 0.98, 1.02, 1.5, 2.0, 2.5, 3.5])


@st.composite
def column(draw, n):
    if draw(st.booleans()):
        ncat = draw(st.integers(1, 6))
        alphabet = ["a", "b", "c", "d", "bb", "e"][:ncat]
        vals = draw(st.lists(st.sampled_from(alphabet), min_size=n, max_size=n))
        order = None
        if draw(st.booleans()):
            order = list(draw(st.permutations(sorted(set(vals) | set(draw(st.lists(st.sampled_from(alphabet), max_size=2)))))))
        return {"kind": "cat", "vals": vals, "order": order}
    vals = draw(st.lists(st.one_of(st.integers(-1, 6).map(float), st.floats(-1.5, 6.5, allow_nan=False, width=32)), min_size=n, max_size=n))
    if draw(st.integers(0, 3)) == 0:
        vals[draw(st.integers(0, n - 1))] = float("nan")
    return {"kind": "float", "vals": vals}


@st.composite
def roi_spec(draw, xcol):
    k = draw(st.sampled_from(["xrange", "yrange", "rect", "rect", "circ", "ellipse", "poly", "annulus", "cat"]))
    if k == "cat":
        if xcol["kind"] != "cat":
            k = "rect"
        else:
            return {"k": "cat", "cats": draw(st.lists(st.sampled_from(["a", "b", "c", "d", "bb", "e", "zz"]), max_size=4, unique=True))}
    if k in ("xrange", "yrange"):
        lo = draw(edge)
        return {"k": k, "lo": lo, "hi": lo + draw(extent)}
    if k == "rect":
        x0, y0 = draw(edge), draw(edge)
        s = {"k": "rect", "xmin": x0, "xmax": x0 + draw(extent), "ymin": y0, "ymax": y0 + draw(extent), "theta": 0.0}
        if draw(st.integers(0, 3)) == 0:
            s["theta"] = draw(st.sampled_from([math.pi / 6, math.pi / 4, 1.0, math.pi / 2, -0.3]))
        return s
    if k == "circ":
        return {"k": "circ", "xc": draw(edge), "yc": draw(edge), "r": draw(extent)}
    if k == "ellipse":
        s = {"k": "ellipse", "xc": draw(edge), "yc": draw(edge), "rx": draw(extent), "ry": draw(extent), "theta": 0.0}
        if draw(st.booleans()):
            s["theta"] = draw(st.sampled_from([math.pi / 6, math.pi / 2, 1.0, -0.4]))
        return s
    if k == "annulus":
        ri = draw(extent)
        return {"k": "annulus", "xc": draw(edge), "yc": draw(edge), "ri": ri, "ro": ri + draw(extent)}
    vx, vy = draw(gen.polygon_vertices())
    sx, sy = draw(st.integers(0, 4)), draw(st.integers(0, 4))
    return {"k": "poly", "vx": [v + sx for v in vx], "vy": [v + sy for v in vy]}


@st.composite
def cases(draw):
    n = draw(st.integers(1, 10))
    x = draw(column(n))
    y = draw(column(n))
    return {"x": x, "y": y, "roi": draw(roi_spec(x))}


def quarter_turn_cases(tier):
    """fixed grids of elements x non-square rectangles at every multiple of pi/2 (and just beside) x the four axis-kind combinations"""
    cats = ["a", "b", "c", "d", "e"]
    nums = [0.0, 1.0, 2.0, 3.0, 4.0]
    cols = {"c": {"kind": "cat", "vals": [cats[i % 5] for i in range(25)], "order": None},
            "n": {"kind": "float", "vals": [nums[i % 5] for i in range(25)]}}
    cols2 = {"c": {"kind": "cat", "vals": [cats[i // 5] for i in range(25)], "order": None},
             "n": {"kind": "float", "vals": [nums[i // 5] for i in range(25)]}}
    for kx in "cn":
        for ky in "cn":
            for k in range(-2, 7):
                for eps in (0.0, 1e-10, 1e-3):
                    for rect in ((0.6, 3.4, 1.6, 2.4), (1.6, 2.4, 0.6, 3.4), (-0.4, 2.4, 2.6, 4.4)):
                        yield {"x": cols[kx], "y": cols2[ky],
                               "roi": {"k": "rect", "xmin": rect[0], "xmax": rect[1], "ymin": rect[2], "ymax": rect[3], "theta": k * math.pi / 2 + eps}}


def checks(tier):
    n = {"quick": 10000, "thorough": 50000}.get(tier, 10)
    return [Check("roi_to_subset_state", fn_roi, strategy=cases(), examples=n),
            Check("rectangles_at_quarter_turns", fn_roi, enum=quarter_turn_cases)]
