"""C02  A saved session restores to an observationally equivalent session.

Oracle: round trip + idempotence over a canonical observation (pbt/session.py: labels, component
order/kinds/values, coords and world values, linked attributes with values, key joins, group
labels/styles/masks per dataset, styles, serialisable metadata, uuid).
"""
import numpy as np
from hypothesis import strategies as st

from .. import gen, session
from ..common import Check, Mismatch, blame

PROPERTY = "C02"
RULE = ("generated collections: 1-3 datasets (shapes <=3-d; float/int/categorical/datetime/derived components; identity/affine coordinates "
        "with units+labels; colliding labels; styles; metadata with an unserialisable value), links (function, two-way, identity, LinkSame, "
        "LinkTwoWay), key joins, 0-3 subset groups whose state is a tree over every buildable SubsetState class and Roi class (incl. "
        "MultiOr, MultiRange, n-d / projected 3-d ROI states, pretransforms); saved with GlueSerializer(include_data=True) and restored; "
        "plus an exhaustive sweep with one minimal session per selection class. Oracle: observe(restore(save(x))) == observe(x) and a "
        "second trip is idempotent; an exception at save time is a permitted loud outcome. Non-trivial = a group with a non-constant "
        "mask whose tree has a non-inequality class, and (>=2 datasets or a link/join); distinct by spec hash.")
ASSUMPTIONS = [
    "an exception during save is a permitted 'loud' outcome (counted); an exception at load time after a successful save is a violation",
    "the deciding comparison for selections is the mask on every dataset; the restored class tree is not compared",
    "sessions saved by reference to files (include_data=False) are covered under C19",
]


def roundtrip(dc):
    from glue.core.state import GlueSerializer, GlueUnSerializer
    text = GlueSerializer(dc, include_data=True).dumps()
    return text, GlueUnSerializer.loads(text).object("__main__")


def classify(path, spec):
    parts = [p for p in path.split("/") if p]
    if parts and parts[0] == "groups":
        gi = int(parts[1]) if len(parts) > 1 and parts[1].isdigit() else 0
        what = parts[2] if len(parts) > 2 else "count"
        classes = "+".join(sorted(session.leaf_classes(spec["groups"][gi]["state"]))) if gi < len(spec["groups"]) else "?"
        return "group-%s/%s" % (what, classes)
    if parts and parts[0] == "datasets":
        what = parts[2] if len(parts) > 2 else "count"
        if what == "subsets":
            classes = "+".join(sorted(set().union(*[session.leaf_classes(g["state"]) for g in spec["groups"]]))) if spec["groups"] else "?"
            return "dataset-subsets/%s" % classes
        if what == "components" and len(parts) > 4:
            return "dataset-components/" + parts[4]
        return "dataset-" + what
    return "other"


def fn_session(spec, rec):
    try:
        dc = session.build_session(spec)
    except Exception as e:  # noqa
        if blame(e)[0] == "glue":
            rec.label("build-raises:" + type(e).__name__)
            return
        raise
    before = session.observe(dc)
    if any(m == "raises" or (isinstance(m, str) and m.startswith("raises")) for g in before["groups"] for m in g["masks"]):
        rec.label("selection-not-evaluable-before-saving")
        return
    try:
        text, dc2 = None, None
        from glue.core.state import GlueSerializer, GlueUnSerializer
        text = GlueSerializer(dc, include_data=True).dumps()
    except Exception as e:  # noqa
        rec.label("loud-at-save:" + type(e).__name__)
        return
    try:
        dc2 = GlueUnSerializer.loads(text).object("__main__")
    except Exception as e:  # noqa
        raise Mismatch("load-fails-after-successful-save/%s/%s" % (type(e).__name__, blame(e)[1] if blame(e)[0] == "glue" else "non-glue"), repr(e)[:500])
    after = session.observe(dc2)
    diff = session.first_difference(before, after)
    if diff:
        raise Mismatch("roundtrip-differs/" + classify(diff[0], spec), {"path": diff[0], "before": diff[1], "after": diff[2]})
    # idempotence
    try:
        text2, dc3 = roundtrip(dc2)
    except Exception as e:  # noqa
        raise Mismatch("second-trip-fails/%s" % type(e).__name__, repr(e)[:500])
    again = session.observe(dc3)
    diff = session.first_difference(after, again)
    if diff:
        raise Mismatch("second-trip-differs/" + classify(diff[0], spec), {"path": diff[0], "first": diff[1], "second": diff[2]})
    good = False
    for g, gs in zip(before["groups"], spec["groups"]):
        cls = session.leaf_classes(gs["state"])
        for m in g["masks"]:
            if isinstance(m, list) and any(m) and not all(m) and any(not c.startswith("ineq") for c in cls):
                good = True
    rec.nt(good and (len(spec["datasets"]) >= 2 or bool(spec["links"]) or bool(spec["joins"])))
    for gs in spec["groups"]:
        for c in session.leaf_classes(gs["state"]):
            rec.label("class:" + c)
    if spec["links"]:
        rec.label("has-links")
        for L in spec["links"]:
            rec.label("link:" + L["kind"])
    if spec["joins"]:
        rec.label("has-joins")


# --------------------------------------------------------------------------- exhaustive class sweep

SWEEP_DATA = {"label": "d", "shape": [4], "coords": None, "derived": [], "style": {"color": "#ff0000", "alpha": 0.5, "markersize": 3, "linewidth": 1, "marker": "o"},
              "meta": {}, "comps": [{"name": "a", "kind": "float", "vals": [0.0, 1.0, 2.0, 3.0]}, {"name": "b", "kind": "int", "vals": [3, 2, 1, 0]},
                                    {"name": "c", "kind": "cat", "vals": ["a", "b", "a", "c"]}]}
A, B, C = ["c", 0], ["c", 1], ["c", 2]
RECT = {"k": "rect", "xmin": 0.5, "xmax": 2.5, "ymin": -1.0, "ymax": 4.0, "theta": 0.0}
SWEEP_LEAVES = [
    {"t": "ineq", "att": A, "op": "gt", "val": 1.0}, {"t": "ineq", "att": A, "op": "le", "val": {"att": B}}, {"t": "ineq", "att": C, "op": "eq", "val": "a"},
    {"t": "range", "att": A, "lo": 0.5, "hi": 2.5}, {"t": "multirange", "att": A, "pairs": [[-0.5, 0.5], [2.5, 3.5]]},
    {"t": "roi", "x": A, "y": B, "roi": RECT}, {"t": "roi", "x": A, "y": B, "roi": dict(RECT, theta=0.4)},
    {"t": "roi", "x": A, "y": B, "roi": {"k": "circ", "xc": 1.0, "yc": 2.0, "r": 1.2}},
    {"t": "roi", "x": A, "y": B, "roi": {"k": "ellipse", "xc": 1.0, "yc": 2.0, "rx": 1.2, "ry": 0.6, "theta": 0.3}},
    {"t": "roi", "x": A, "y": B, "roi": {"k": "poly", "vx": [0.5, 2.5, 2.5, 0.5], "vy": [-1.0, -1.0, 4.0, 4.0]}},
    {"t": "roi", "x": A, "y": B, "roi": {"k": "xrange", "lo": 0.5, "hi": 2.5}}, {"t": "roi", "x": A, "y": B, "roi": {"k": "yrange", "lo": 0.5, "hi": 2.5}},
    {"t": "roi", "x": A, "y": B, "roi": {"k": "range", "ori": "x", "lo": 0.5, "hi": 2.5}},
    {"t": "roi", "x": A, "y": B, "roi": {"k": "annulus", "xc": 1.0, "yc": 2.0, "ri": 0.5, "ro": 1.6}},
    {"t": "roi", "x": A, "y": B, "roi": {"k": "point", "x": 1.0, "y": 2.0}},
    {"t": "roi", "x": A, "y": B, "roi": RECT, "pre": ["x", "y"]}, {"t": "roi", "x": A, "y": B, "roi": RECT, "pre": ["x"]},
    {"t": "roind", "atts": [A, B], "roi": RECT},
    {"t": "roi3d", "atts": [A, B, A], "roi": {"k": "proj3d", "roi": RECT, "matrix": [[1.0, 0, 0, 0], [0, 1.0, 0, 0], [0, 0, 1.0, 0], [0, 0, 0, 1.0]]}},
    {"t": "mask", "mask": [True, False, True, False]}, {"t": "slice", "slices": [[1, 3, None]]}, {"t": "element", "indices": [0, 3]},
    {"t": "base"}, {"t": "catroi", "att": C, "cats": ["a", "c"]}, {"t": "category", "att": C, "codes": [0, 2]},
    {"t": "floodfill", "att": A, "start": [1], "threshold": 1.6}, {"t": "parsed", "att": A, "op": "gt", "val": 1.0},
    {"t": "cat2d", "att1": C, "att2": C, "table": {"a": ["a"], "c": ["c"]}},
    {"t": "catmultirange", "cat": C, "num": A, "table": {"a": [[-0.5, 0.5]], "b": [[0.5, 1.5]]}},
]


def sweep_cases(tier):
    for leaf in SWEEP_LEAVES:
        for wrap in ("bare", "not", "and", "or", "multior"):
            if wrap == "bare":
                state = leaf
            elif wrap == "not":
                state = {"t": "not", "a": leaf}
            elif wrap == "multior":
                state = {"t": "multior", "states": [leaf, {"t": "base"}]}
            else:
                state = {"t": wrap, "a": leaf, "b": {"t": "ineq", "att": A, "op": "ge", "val": 0.0}}
            yield {"datasets": [SWEEP_DATA], "links": [], "joins": [],
                   "groups": [{"label": "sel", "state": state, "style": {"color": "#00ff00", "alpha": 1.0, "markersize": 5, "linewidth": 2.5, "marker": "s"}}]}


def checks(tier):
    n = {"quick": 1600, "thorough": 16000}.get(tier, 10)
    return [
        Check("class_sweep", fn_session, enum=sweep_cases),
        Check("sessions", fn_session, strategy=session.session_spec(), examples=n),
    ]
