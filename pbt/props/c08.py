"""C08  Region containment is geometrically exact and equivariant under move/rotate/copy.

Oracle: pbt/oracles/geometry.py (signed distance written from the definitions).  Points within
tau = 1e-7 * (region scale + |x| + |y|) of the true boundary are excluded from every comparison.
"""
import math

import numpy as np
from hypothesis import strategies as st

from .. import gen
from ..common import Check, Mismatch
from ..oracles import geometry as G

PROPERTY = "C08"
RULE = ("ROI spec (rectangle/ellipse with angles at and near multiples of pi/2, circle, annulus, simple possibly concave open/closed "
        "polygon, x/y range, projected 3-d with affine/perspective matrices, categorical) x point set = generated points + 9x9 grid over "
        "the bounding box + probe rings at signed normal offsets +-{1e-6, 1e-5}*scale and 0.1*size from the true boundary, delivered in a "
        "generated array layout (0-d, 1-d, 2-d, 3-d, Fortran, strided, transposed, broadcast views) and, for projected regions, with a "
        "generated chunk limit. Oracle: exact signed distance; checks contains(), move_to, rotate_to, to_polygon, copy, serialiser round "
        "trip. Non-trivial = evaluated points on both sides of the boundary within 0.1*size and (for classes with theta) theta != 0; "
        "distinct by spec hash.")
ASSUMPTIONS = [
    "boundary band tau = 1e-7*(scale+|x|+|y|) covers glue's isclose(theta mod pi/2, 0, atol=1e-9) snapping and rounding",
    "polygons are simple (star-shaped construction); self-intersecting polygons have no agreed inside and are not generated",
    "the 100-gon approximations of circle/ellipse/annulus are compared outside a band widened by max_radius*(1-cos(pi/99))",
    "Projected3dROI chunking: the harness rebinds glue.core.roi.iterate_chunks to call the real iterate_chunks with a smaller n_max; a few genuine >1e6-point cases run in the thorough tier",
]

LAYOUTS = ["1d", "0d", "2d", "3d", "fortran", "strided", "transposed", "broadcast"]


def points_for(rs, extra):
    sc = G.scale_of(rs)
    ms = G.min_size(rs)
    xs, ys = [np.array([p[0] for p in extra], dtype=float)], [np.array([p[1] for p in extra], dtype=float)]
    bx, by, nx, ny = G.boundary_points(rs)
    for dist in (1e-6 * sc, 1e-5 * sc, 0.1 * ms):
        for sgn in (1, -1):
            xs.append(bx + sgn * dist * nx)
            ys.append(by + sgn * dist * ny)
    x0, x1, y0, y1 = G.bbox(rs)
    gx, gy = np.meshgrid(np.linspace(x0 - 0.2 * (x1 - x0), x1 + 0.2 * (x1 - x0), 9), np.linspace(y0 - 0.2 * (y1 - y0), y1 + 0.2 * (y1 - y0), 9))
    xs.append(gx.ravel())
    ys.append(gy.ravel())
    return np.concatenate(xs), np.concatenate(ys)


def lay_out(x, y, layout):
    """Deliver the same points in a different array layout; returns (X, Y, back) where back(result) is 1-d in the original order."""
    n = x.size
    if layout == "1d":
        return x, y, lambda r: np.asarray(r)
    if layout == "2d" or layout == "fortran" or layout == "transposed":
        k = 2
        while n % k and k < n:
            k += 1
        shp = (k, n // k) if n % k == 0 else (1, n)
        X, Y = x.reshape(shp), y.reshape(shp)
        if layout == "fortran":
            X, Y = np.asfortranarray(X), np.asfortranarray(Y)
        if layout == "transposed":
            X, Y = np.ascontiguousarray(X.T).T, np.ascontiguousarray(Y.T).T
        return X, Y, lambda r: np.asarray(r).reshape(-1)
    if layout == "3d":
        pad = (-n) % 4
        xx = np.concatenate([x, x[:pad]]) if pad else x
        yy = np.concatenate([y, y[:pad]]) if pad else y
        shp = (2, 2, xx.size // 4)
        return xx.reshape(shp), yy.reshape(shp), lambda r: np.asarray(r).reshape(-1)[:n]
    if layout == "strided":
        X = np.zeros(2 * n)
        Y = np.zeros(3 * n)
        X[::2] = x
        Y[::3] = y
        return X[::2], Y[::3], lambda r: np.asarray(r)
    return x, y, lambda r: np.asarray(r)


def off_band(rs, x, y, rho=None, widen=0.0):
    d = G.signed(rs, x, y, rho)
    t = G.tau(rs, x, y) + widen
    return d, np.abs(d) > t


def compare(got, d, ok, sig, rs, x, y):
    got = np.asarray(got)
    if got.shape != d.shape:
        raise Mismatch(sig + "/shape", {"got": list(got.shape), "expected": list(d.shape)})
    if got.dtype != bool:
        raise Mismatch(sig + "/dtype", str(got.dtype))
    exp = d > 0
    bad = ok & (got != exp)
    if bad.any():
        i = int(np.argmax(bad))
        raise Mismatch(sig, {"point": [float(x.ravel()[i]), float(y.ravel()[i])], "got": bool(got.ravel()[i]),
                             "signed_distance": float(d.ravel()[i]), "tau": float(np.ravel(G.tau(rs, x, y))[i]), "n_bad": int(bad.sum())})


def has_theta(rs):
    return rs["k"] in ("rect", "ellipse")


def fn_roi(spec, rec):
    rs = spec["roi"]
    roi = gen.build_roi(rs)
    x, y = points_for(rs, spec["pts"])
    d, ok = off_band(rs, x, y)

    # 1. contains() answers the geometric question (1-d reference layout)
    ref = roi.contains(x, y)
    compare(ref, d, ok, "contains-wrong/" + rs["k"], rs, x, y)
    ref = np.asarray(ref)

    # 2. layouts: identical answers for every delivery of the same points
    layout = spec["layout"]
    if layout == "0d":
        for i in spec.get("idx", [0, 1, 2]):
            i = i % x.size
            r = roi.contains(x[i], y[i])
            if np.shape(r) != () or bool(r) != bool(ref[i]):
                raise Mismatch("layout-dependent/0d", {"i": i, "got": repr(r), "ref": bool(ref[i])})
    elif layout == "broadcast":
        ux, uy = np.unique(x)[:7], np.unique(y)[:6]
        X, Y = np.broadcast_arrays(ux[:, None], uy[None, :])
        r = np.asarray(roi.contains(X, Y))
        r2 = np.asarray(roi.contains(np.ascontiguousarray(X).ravel(), np.ascontiguousarray(Y).ravel())).reshape(X.shape)
        if r.shape != X.shape or not np.array_equal(r, r2):
            raise Mismatch("layout-dependent/broadcast", {"shape": list(r.shape)})
    else:
        X, Y, back = lay_out(x, y, layout)
        r = np.asarray(roi.contains(X, Y))
        if r.shape != X.shape:
            raise Mismatch("layout-dependent/shape/" + layout, {"got": list(r.shape), "expected": list(X.shape)})
        if not np.array_equal(back(r), ref):
            raise Mismatch("layout-dependent/" + layout, None)

    # 3. copy() and serialiser round trip contain exactly the same points
    cp = roi.copy()
    if not np.array_equal(np.asarray(cp.contains(x, y)), ref):
        raise Mismatch("copy-differs/" + rs["k"], None)
    from glue.core.state import GlueSerializer, GlueUnSerializer
    text = GlueSerializer(roi).dumps()
    back_roi = GlueUnSerializer.loads(text).object("__main__")
    if type(back_roi) is not type(roi):
        raise Mismatch("roundtrip-class-changed/" + rs["k"], type(back_roi).__name__)
    if not np.array_equal(np.asarray(back_roi.contains(x, y)), ref):
        raise Mismatch("roundtrip-differs/" + rs["k"], None)

    # 4. to_polygon() encloses the same set up to its discretisation error
    if spec.get("polygon", True):
        from glue.core.roi import PolygonalROI
        vx, vy = roi.to_polygon()
        widen = 0.0
        if rs["k"] in ("circ", "ellipse", "annulus"):
            rmax = rs.get("r") or rs.get("ro") or max(rs.get("rx", 0), rs.get("ry", 0))
            widen = rmax * (1 - math.cos(math.pi / 99)) * 1.01
        if rs["k"] not in ("xrange", "yrange"):
            dp, okp = off_band(rs, x, y, rho=widen + 3e-7 * G.scale_of(rs), widen=widen)
            if rs["k"] == "annulus":
                # the single-polygon approximation joins the two rings by a zero-width seam on y=yc, x in [xc+ri, xc+ro]:
                # the seam is boundary of the approximating polygon, so points within the band of it are excluded as well
                seam = G.seg_dist(x, y, rs["xc"] + rs["ri"], rs["yc"], rs["xc"] + rs["ro"], rs["yc"])
                okp = okp & (seam > widen + G.tau(rs, x, y))
            pr = PolygonalROI(vx, vy).contains(x, y)
            compare(pr, dp, okp, "to_polygon-differs/" + rs["k"], rs, x, y)

    # 5. move_to: the contained set is translated by exactly the displacement, centre reported there
    mv = spec.get("move")
    work = back_roi if spec.get("transform_restored") else roi.copy()
    if mv is not None and rs["k"] not in ("xrange", "yrange"):
        cx, cy = G.center_of(rs)
        got_c = work.center()
        tolc = 1e-9 * (G.scale_of(rs) + 1)
        if abs(got_c[0] - cx) > tolc or abs(got_c[1] - cy) > tolc:
            raise Mismatch("center-wrong/" + rs["k"], {"got": [float(got_c[0]), float(got_c[1])], "expected": [cx, cy]})
        nx_, ny_ = mv
        work.move_to(nx_, ny_)
        c2 = work.center()
        tol2 = 1e-9 * (G.scale_of(rs) + abs(nx_) + abs(ny_) + 1)
        if abs(c2[0] - nx_) > tol2 or abs(c2[1] - ny_) > tol2:
            raise Mismatch("move_to-centre-not-at-target/" + rs["k"], {"got": [float(c2[0]), float(c2[1])], "target": [nx_, ny_]})
        dx, dy = nx_ - cx, ny_ - cy
        xm, ym = x + dx, y + dy
        # band: tolerance also covers rounding of the shifted coordinates
        okm = ok & (np.abs(d) > G.tau(rs, xm, ym) + 1e-12 * (abs(dx) + abs(dy)))
        compare(work.contains(xm, ym), d, okm, "move_to-not-a-translation/" + rs["k"], rs, xm, ym)
        x, y, cx, cy = xm, ym, nx_, ny_
        ok = okm
    elif mv is not None:
        c = (rs["lo"] + rs["hi"]) / 2
        if abs(work.center() - c) > 1e-9 * (abs(c) + 1):
            raise Mismatch("center-wrong/range", None)
        work.move_to(mv[0])
        delta = mv[0] - c
        xm, ym = (x + delta, y) if rs["k"] == "xrange" else (x, y + delta)
        okm = ok & (np.abs(d) > G.tau(rs, xm, ym) + 1e-12 * abs(delta))
        compare(work.contains(xm, ym), d, okm, "move_to-not-a-translation/" + rs["k"], rs, xm, ym)
        x, y, ok = xm, ym, okm
    else:
        cx, cy = (G.center_of(rs) if rs["k"] not in ("xrange", "yrange") else (0, 0))

    # 6. rotate_to: the contained set is rotated about the centre
    rot = spec.get("rotate")
    if rot is not None and rs["k"] in ("rect", "ellipse", "poly"):
        th0 = rs.get("theta", 0.0) if has_theta(rs) else 0.0
        # a chain of absolute rotations: after each one the region is the original rotated by (angle - initial angle) about the centre
        for step, ang in enumerate([rot] + list(spec.get("rotate_more") or [])):
            work.rotate_to(ang)
            dth = ang - th0
            c, s_ = math.cos(dth), math.sin(dth)
            xr = cx + c * (x - cx) - s_ * (y - cy)
            yr = cy + s_ * (x - cx) + c * (y - cy)
            okr = ok & (np.abs(d) > G.tau(rs, xr, yr) * (2 + 2 * step))
            compare(work.contains(xr, yr), d, okr, "rotate_to-not-a-rotation/" + rs["k"] + ("" if step == 0 else "/later-in-a-chain"), rs, xr, yr)
            if abs(getattr(work, "theta", ang) - ang) > 0:
                raise Mismatch("rotate_to-theta-not-recorded" + ("" if step == 0 else "/later-in-a-chain"), {"theta": float(work.theta), "asked": ang})
            # centre unchanged by rotation
            c3 = work.center()
            if abs(c3[0] - cx) > 1e-8 * (G.scale_of(rs) + abs(cx) + 1) or abs(c3[1] - cy) > 1e-8 * (G.scale_of(rs) + abs(cy) + 1):
                raise Mismatch("rotate_to-moved-centre/" + rs["k"], {"got": [float(c3[0]), float(c3[1])], "expected": [cx, cy]})

    # 7. a polygon object that is emptied and drawn again (reset + add_point) behaves like a new polygon with those vertices
    if rs["k"] == "poly" and rot is not None and spec.get("redraw") is not None:
        import glue.core.roi as R2
        work.reset()
        for vx_, vy_ in zip(rs["vx"], rs["vy"]):
            work.add_point(vx_, vy_)
        fresh = R2.PolygonalROI(list(rs["vx"]), list(rs["vy"]))
        ang = spec["redraw"]
        work.rotate_to(ang)
        fresh.rotate_to(ang)
        if not (np.allclose(work.vx, fresh.vx, rtol=1e-9, atol=1e-9 * G.scale_of(rs)) and np.allclose(work.vy, fresh.vy, rtol=1e-9, atol=1e-9 * G.scale_of(rs))):
            raise Mismatch("redrawn-polygon-rotates-differently-from-a-new-one", {"asked": ang, "earlier": rot, "got": [list(map(float, work.vx)), list(map(float, work.vy))],
                                                                                  "fresh": [list(map(float, fresh.vx)), list(map(float, fresh.vy))]})
        if abs(work.theta - ang) > 0:
            raise Mismatch("rotate_to-theta-not-recorded/after-redraw", {"theta": float(work.theta), "asked": ang})
        rec.label("poly:redrawn")

    near = ok & (np.abs(d) <= 0.1 * G.min_size(rs) * 1.0001)
    both = bool((near & (d > 0)).any() and (near & (d < 0)).any())
    rec.nt(both and (not has_theta(rs) or rs.get("theta", 0.0) != 0.0))
    rec.label("roi:" + rs["k"], "layout:" + layout)
    if has_theta(rs):
        th = rs.get("theta", 0.0)
        m = abs((th + math.pi / 4) % (math.pi / 2) - math.pi / 4)
        rec.label("theta:zero" if th == 0 else ("theta:snapped(<1e-9)" if m < 1e-9 else ("theta:near-multiple" if m < 1e-2 else "theta:generic")))
    if rs["k"] == "poly":
        rec.label("poly:closed" if (rs["vx"][0] == rs["vx"][-1] and rs["vy"][0] == rs["vy"][-1]) else "poly:open")
    if mv is not None:
        rec.label("moved")
    if rot is not None and rs["k"] in ("rect", "ellipse", "poly"):
        rec.label("rotated")
    if spec.get("transform_restored"):
        rec.label("transform-after-restore")


# --------------------------------------------------------------------------- projected 3-d

def fn_proj3d(spec, rec):
    import glue.core.roi as R
    from glue.utils import iterate_chunks as real_iter
    rs = spec["roi"]
    M = np.array(spec["matrix"], dtype=float)
    pts = np.array(spec["pts"], dtype=float).reshape(-1, 3)
    intcol = spec.get("intcol")            # one coordinate given as an integer array (e.g. an integer column), the others as floats
    if intcol is not None and len(pts):
        pts[:, intcol] = np.round(pts[:, intcol])
    shape3 = spec.get("shape")
    x, y, z = pts[:, 0], pts[:, 1], pts[:, 2]
    h = M @ np.vstack([x, y, z, np.ones_like(x)])
    with np.errstate(all="ignore"):
        sx, sy = h[0] / h[3], h[1] / h[3]
    finite = np.isfinite(sx) & np.isfinite(sy) & (np.abs(h[3]) > 1e-6)
    d = np.where(finite, G.signed(rs, np.where(finite, sx, 0.0), np.where(finite, sy, 0.0)), 0.0)
    ok = finite & (np.abs(d) > G.tau(rs, np.where(finite, sx, 0), np.where(finite, sy, 0)) * 10)
    roi = R.Projected3dROI(gen.build_roi(rs), M)
    k = spec.get("chunk")
    calls = [0]

    def small_chunks(shape, chunk_shape=None, n_max=None):
        calls[0] += 1
        return real_iter(shape, chunk_shape=chunk_shape, n_max=None if n_max is None else min(n_max, k))
    old = R.iterate_chunks
    if k:
        R.iterate_chunks = small_chunks
    try:
        if shape3:
            X, Y, Z = x.reshape(shape3), y.reshape(shape3), z.reshape(shape3)
        else:
            X, Y, Z = x, y, z
        if intcol is not None:
            cols = [X, Y, Z]
            cols[intcol] = cols[intcol].astype(np.int64)
            X, Y, Z = cols
        got = np.asarray(roi.contains3d(X, Y, Z))
        if got.shape != X.shape:
            raise Mismatch("proj3d/shape", {"got": list(got.shape)})
        got = got.reshape(-1)
    finally:
        R.iterate_chunks = old
    if k and not calls[0]:
        raise Mismatch("proj3d/harness-chunk-wrapper-unused", None)
    exp = d > 0
    bad = ok & (got != exp)
    if bad.any():
        i = int(np.argmax(bad))
        raise Mismatch("proj3d/contains3d-wrong", {"point": pts[i].tolist(), "screen": [float(sx[i]), float(sy[i])], "got": bool(got[i]), "chunk": k})
    # round trip and copy
    from glue.core.state import GlueSerializer, GlueUnSerializer
    back = GlueUnSerializer.loads(GlueSerializer(roi).dumps()).object("__main__")
    if not np.array_equal(np.asarray(back.contains3d(x, y, z)), got):
        raise Mismatch("proj3d/roundtrip-differs", None)
    cp = roi.copy()
    if not np.array_equal(np.asarray(cp.contains3d(x, y, z)), got):
        raise Mismatch("proj3d/copy-differs", None)
    # moving / rotating the projected region acts on the screen-space region: the reported centre is the new one and the
    # contained points are those of the moved / rotated 2-d region (oracle: signed distance of the edited spec)
    if rs["k"] in ("rect", "circ", "ellipse") and spec.get("move"):
        dx, dy = spec["move"]
        c0 = G.center_of(rs)
        moved = gen.build_roi(rs)
        moved.move_to(c0[0] + dx, c0[1] + dy)       # the 2-d behaviour is established by the roi2d check
        roi.move_to(c0[0] + dx, c0[1] + dy)
        cx, cy = roi.center()
        if not (abs(cx - (c0[0] + dx)) <= 1e-9 * (1 + abs(cx)) and abs(cy - (c0[1] + dy)) <= 1e-9 * (1 + abs(cy))):
            raise Mismatch("proj3d/center-after-move", {"got": [float(cx), float(cy)], "expected": [c0[0] + dx, c0[1] + dy]})
        d2 = np.where(finite, G.signed(rs, np.where(finite, sx - dx, 0.0), np.where(finite, sy - dy, 0.0)), 0.0)
        ok2 = finite & (np.abs(d2) > G.tau(rs, np.where(finite, sx, 0), np.where(finite, sy, 0)) * 100)
        got2 = np.asarray(roi.contains3d(x, y, z)).reshape(-1)
        if (ok2 & (got2 != (d2 > 0))).any():
            raise Mismatch("proj3d/contains3d-wrong-after-move", {"move": [dx, dy], "roi": rs["k"]})
        px, py = roi.to_polygon()
        mx, my = moved.to_polygon()
        if not (np.allclose(px, mx) and np.allclose(py, my)):
            raise Mismatch("proj3d/to_polygon-differs-from-2d-region", None)
        rec.label("proj3d-moved")
    nchunks = 1 if not k else -(-x.size // k)
    rec.nt(bool((ok & exp).any() and (ok & ~exp).any()) and nchunks > 1)
    rec.label("chunks:%s" % ("1" if nchunks == 1 else ">1"), "roi:" + rs["k"])


def fn_proj3d_big(spec, rec):
    """Genuine >1e6-element evaluation (no rebinding): chunked result equals per-slab evaluation."""
    import glue.core.roi as R
    n = spec["n"]
    M = np.array(spec["matrix"], dtype=float)
    roi = R.Projected3dROI(gen.build_roi(spec["roi"]), M)
    i = np.arange(n, dtype=float)
    x, y, z = (i % 101) / 25.0 - 2, ((i // 101) % 103) / 25.0 - 2, (i // (101 * 103)) / 50.0 - 1
    shp = spec["shape"]
    got = roi.contains3d(x.reshape(shp), y.reshape(shp), z.reshape(shp)).reshape(-1)
    h = M @ np.vstack([x, y, z, np.ones_like(x)])
    sx, sy = h[0] / h[3], h[1] / h[3]
    d = G.signed(spec["roi"], sx, sy)
    ok = np.abs(d) > G.tau(spec["roi"], sx, sy) * 10
    bad = ok & (got != (d > 0))
    if bad.any():
        raise Mismatch("proj3d/contains3d-wrong-big", {"first_bad_index": int(np.argmax(bad)), "n_bad": int(bad.sum())})
    rec.nt(True)


def big_cases(tier):
    if tier != "thorough":
        return
    I = [[1, 0, 0, 0], [0, 1, 0, 0], [0, 0, 1, 0], [0, 0, 0, 1]]
    yield {"n": 1030301, "shape": [1030301], "matrix": I, "roi": {"k": "circ", "xc": 0.0, "yc": 0.0, "r": 1.5}}
    yield {"n": 1030200, "shape": [100, 10302], "matrix": [[1, 0, 0.5, 0], [0, 1, 0, 0], [0, 0, 1, 0], [0, 0, 0.1, 1]],
           "roi": {"k": "rect", "xmin": -1.0, "xmax": 1.0, "ymin": -0.5, "ymax": 1.5, "theta": 0.3}}


# --------------------------------------------------------------------------- categorical

def fn_cat(spec, rec):
    from glue.core.roi import CategoricalROI
    from glue.core.state import GlueSerializer, GlueUnSerializer
    from glue.utils.array import categorical_ndarray
    roi = CategoricalROI(list(spec["cats"])) if spec["cats"] is not None else CategoricalROI()
    vals = np.array(spec["vals"], dtype="U4")
    arr = categorical_ndarray(vals) if spec["catarray"] else vals
    shp = spec.get("shape")
    if shp:
        arr = arr.reshape(shp)
    got = np.asarray(roi.contains(arr, None))
    exp = np.isin(vals, list(spec["cats"] or [])).reshape(got.shape if shp else vals.shape)
    if got.shape != exp.shape or not np.array_equal(got.astype(bool), exp):
        raise Mismatch("categorical-contains-wrong", {"got": got.tolist(), "expected": exp.tolist()})
    if spec["cats"] is not None:
        back = GlueUnSerializer.loads(GlueSerializer(roi).dumps()).object("__main__")
        if not np.array_equal(np.asarray(back.contains(arr, None)), got) or not np.array_equal(np.asarray(roi.copy().contains(arr, None)), got):
            raise Mismatch("categorical-roundtrip-differs", None)
    rec.nt(bool(exp.any() and not exp.all()))


# --------------------------------------------------------------------------- generators

pt = st.tuples(gen.coord, gen.coord).map(list)


@st.composite
def roi_cases(draw):
    rs = draw(gen.roi2d_spec())
    spec = {"roi": rs, "pts": draw(st.lists(pt, max_size=6)), "layout": draw(st.sampled_from(LAYOUTS)),
            "idx": draw(st.lists(st.integers(0, 500), min_size=1, max_size=3)),
            "move": draw(st.one_of(st.none(), pt)), "rotate": draw(st.one_of(st.none(), gen.angle())),
            "rotate_more": draw(st.one_of(st.just([]), st.lists(gen.angle(), min_size=1, max_size=3))),
            "redraw": draw(st.one_of(st.none(), gen.angle())),
            "transform_restored": draw(st.booleans())}
    if rs["k"] in ("xrange", "yrange") and spec["move"] is not None:
        spec["move"] = spec["move"][:1]
    return spec


@st.composite
def proj_cases(draw):
    rs = draw(gen.roi2d_spec(kinds=("rect", "circ", "ellipse", "poly")))
    kind = draw(st.sampled_from(["identity", "affine", "perspective"]))
    M = [[1.0, 0, 0, 0], [0, 1.0, 0, 0], [0, 0, 1.0, 0], [0, 0, 0, 1.0]]
    if kind != "identity":
        for i in range(3):
            for j in range(4):
                M[i][j] = draw(st.sampled_from([0.0, 0.0, 1.0, -1.0, 0.5, 2.0]))
        M[0][0] = M[0][0] or 1.0
        M[1][1] = M[1][1] or 1.0
    if kind == "perspective":
        M[3] = [0.0, 0.0, draw(st.sampled_from([0.1, 0.25, -0.1])), 1.0]
    n = draw(st.integers(1, 40))
    pts = draw(st.lists(st.tuples(gen.coord, gen.coord, gen.coord).map(list), min_size=n, max_size=n))
    shape = None
    if n % 2 == 0 and draw(st.booleans()):
        shape = [2, n // 2]
    move = draw(st.one_of(st.none(), st.tuples(st.sampled_from([-1.5, -0.25, 0.0, 0.5, 2.0]), st.sampled_from([-1.0, 0.0, 0.75, 3.0])).map(list)))
    return {"roi": rs, "matrix": M, "pts": pts, "shape": shape, "chunk": draw(st.sampled_from([None, 1, 2, 3, 7, 16])), "move": move,
            "intcol": draw(st.sampled_from([None, None, 0, 1, 2]))}


@st.composite
def cat_cases(draw):
    n = draw(st.integers(1, 8))
    vals = draw(gen.cat_values(n))
    cats = draw(st.one_of(st.none(), st.lists(st.sampled_from(gen.CAT_ALPHABET + ["zz"]), max_size=4)))
    shape = [2, n // 2] if n % 2 == 0 and draw(st.booleans()) else None
    return {"vals": vals, "cats": cats, "catarray": draw(st.booleans()), "shape": shape}


def checks(tier):
    n1, n2, n3 = {"quick": (12000, 3600, 1200), "thorough": (120000, 36000, 12000)}.get(tier, (10, 10, 10))
    return [
        Check("roi2d", fn_roi, strategy=roi_cases(), examples=n1, reset=False),
        Check("projected3d", fn_proj3d, strategy=proj_cases(), examples=n2, reset=False),
        Check("projected3d_big", fn_proj3d_big, enum=big_cases, shards=2),
        Check("categorical", fn_cat, strategy=cat_cases(), examples=n3, reset=False),
    ]
