"""C18  Viewers and attribute pickers mirror the collection.

Op-list histories on a headless Application with one viewer of each built-in kind, and on
ComponentIDComboHelper / ManualDataComboHelper attached to a bare State.  A small model tracks
which layers the viewer must hold; the invariant is evaluated after every step.
"""
import gc

import numpy as np
from hypothesis import strategies as st

from ..common import Check, Mismatch, blame

PROPERTY = "C18"
RULE = ("(a) per viewer kind (scatter, histogram, image, profile; headless Agg): op-list histories (<=12 steps, thorough 20) over collection "
        "operations (append/remove/re-append dataset, new/remove subset group, add/remove component), viewer operations (add_data, "
        "add_subset, remove_data, removing one layer), hub.delay_callbacks() brackets and save+restore of the application; invariant: "
        "viewer.layers, viewer.state.layers and the model's layer set agree as multisets, nothing remains for removed datasets/subsets/"
        "groups; image viewer: x/y axes distinct pixel axes of the reference data; (b) ComponentIDComboHelper / ManualDataComboHelper "
        "histories (dataset and component churn, filter toggles, renames, explicit selections): choices equal the documented filter, the "
        "selection is one of them (or None iff there are none). Non-trivial = a dataset or group is removed or re-added after the viewer "
        "(helper) got entries for it; distinct by spec hash.")
ASSUMPTIONS = [
    "a viewer adds a layer for a new subset only when it holds the layer of the subset's dataset (documented filter of the SubsetCreateMessage subscription); a layer removed by hand stays removed",
    "derived attributes are offered by a picker when both its 'numeric' and 'derived' filters are on (they are numerical)",
    "viewers are few and short because each costs 0.3-1.5 s; they are sharded over the worker processes",
]


class ViewerWorld:
    def __init__(self, kind):
        from ..viewers import make_app, viewer_classes
        self.kind = kind
        self.cls = viewer_classes()[kind]
        self.app = make_app()
        self.dc = self.app.data_collection
        self.viewer = None
        self.expected = []      # layers (Data / Subset objects) the viewer must hold
        self.removed_data = []
        self.counter = 0
        self.nt = False
        self.had = set()
        self.allow_known = False
        self.skipped_known = 0
        self.selected = 0
        self.select_raised = []

    def new_data(self):
        from glue.core import Data
        self.counter += 1
        k = self.counter
        if self.kind in ("image", "profile"):
            shape = (2, 3) if ((k - 1) // 2) % 2 == 0 else (2, 3, 2)
            n = int(np.prod(shape))
            d = Data(label="d%d" % k, x=np.arange(float(n)).reshape(shape) + k, y=np.arange(float(n)).reshape(shape) * k)
            if k % 2 == 0:      # some datasets have world coordinates, so the reference of an image viewer can move between both kinds
                from glue.core.coordinates import IdentityCoordinates
                d.coords = IdentityCoordinates(n_dim=len(shape))
        else:
            d = Data(label="d%d" % k, x=np.arange(4.0) + k, y=np.arange(4.0) * k, c=np.array(["p", "q", "p", "r"]))
        return d

    def ensure_viewer(self):
        if self.viewer is None:
            self.viewer = self.app.new_data_viewer(self.cls)

    def step(self, op):
        k = op[0]
        dc = self.dc
        datas = list(dc)
        groups = list(dc.subset_groups)
        i = op[1] if len(op) > 1 else 0
        if k == "append":
            dc.append(self.new_data())
        elif k == "remove" and datas:
            d = datas[i % len(datas)]
            if any(d is x for x in self.expected):
                self.nt = True
            dc.remove(d)
            self.removed_data.append(d)
            self.expected = [l for l in self.expected if l is not d and getattr(l, "data", None) is not d]
        elif k == "reappend" and self.removed_data:
            d = self.removed_data.pop(i % len(self.removed_data))
            dc.append(d)
            if id(d) in self.had:
                self.nt = True
        elif k == "group":
            from glue.core.subset import ElementSubsetState
            g = dc.new_subset_group(subset_state=ElementSubsetState(indices=[i % 4]))
            for s in g.subsets:
                if any(s.data is x for x in self.expected):
                    self.expected.append(s)
        elif k == "rmgroup" and groups:
            g = groups[i % len(groups)]
            subs = list(g.subsets)
            if any(any(s is x for x in self.expected) for s in subs):
                self.nt = True
            dc.remove_subset_group(g)
            self.expected = [l for l in self.expected if not any(l is s for s in subs)]
        elif k == "addcomp" and datas:
            d = datas[i % len(datas)]
            self.counter += 1
            d.add_component(np.zeros(d.shape) + self.counter, "n%d" % self.counter)
        elif k == "rmcomp" and datas:
            d = datas[i % len(datas)]
            extra = [c for c in d.main_components if c.label.startswith("n")]
            if extra:
                d.remove_component(extra[0])
        elif k == "add_data" and datas:
            self.ensure_viewer()
            d = datas[i % len(datas)]
            ok = self.viewer.add_data(d)
            if ok and not any(d is x for x in self.expected):
                self.expected.append(d)
                self.had.add(id(d))
                for s in d.subsets:
                    if not any(s is x for x in self.expected):
                        self.expected.append(s)
        elif k == "add_subset" and groups and datas:
            self.ensure_viewer()
            g = groups[i % len(groups)]
            if g.subsets:
                s = g.subsets[op[2] % len(g.subsets)]
                ok = self.viewer.add_subset(s)
                if ok and not any(s is x for x in self.expected):
                    self.expected.append(s)
        elif k == "remove_data" and datas and self.viewer is not None:
            d = datas[i % len(datas)]
            self.viewer.remove_data(d)
            self.expected = [l for l in self.expected if l is not d and getattr(l, "data", None) is not d]
        elif k == "remove_layer" and self.viewer is not None and len(self.viewer.state.layers):
            ls = self.viewer.state.layers[i % len(self.viewer.state.layers)]
            layer = ls.layer
            self.viewer.state.layers.remove(ls)
            self.expected = [l for l in self.expected if l is not layer]
        elif k == "select" and self.viewer is not None:
            # an explicit selection in one of the viewer state's pickers (for an image viewer: choosing an axis, which
            # may be the one currently shown on the other axis)
            names = {"image": ["x_att_world", "y_att_world", "reference_data"], "scatter": ["x_att", "y_att"], "histogram": ["x_att"],
                     "profile": ["x_att", "reference_data"]}[self.kind]
            name = names[i % len(names)]
            prop = getattr(type(self.viewer.state), name)
            try:
                choices = [c for c in prop.get_choices(self.viewer.state) if type(c).__name__ != "ChoiceSeparator"]
            except Exception:
                choices = []
            if choices:
                j = op[2] if len(op) > 2 else 0
                self.selected += 1
                try:
                    setattr(self.viewer.state, name, choices[j % len(choices)])
                except Exception as e:  # noqa
                    if blame(e)[0] != "glue":
                        raise
                    self.select_raised.append("%s:%s" % (name, type(e).__name__))     # the invariant below decides
        elif k == "delay":
            with dc.hub.delay_callbacks():
                for sub in op[1]:
                    self.step(sub)
        elif k == "restore" and self.viewer is not None and self.kind in ("histogram", "profile") and not self.allow_known:
            self.skipped_known += 1      # open finding (rename table captures the layer-artist class): excluded by construction, counted
        elif k == "restore" and self.viewer is not None:
            from glue.core.state import GlueSerializer, GlueUnSerializer
            old_datas = list(dc)
            old_subsets = {}
            for di, d in enumerate(old_datas):
                for si, s in enumerate(d.subsets):
                    old_subsets[id(s)] = (di, si)
            exp_idx = []
            for l in self.expected:
                if any(l is d for d in old_datas):
                    exp_idx.append(("d", [n for n, d in enumerate(old_datas) if d is l][0]))
                elif id(l) in old_subsets:
                    exp_idx.append(("s",) + old_subsets[id(l)])
            try:
                text = GlueSerializer(self.app).dumps()
            except Exception as e:  # noqa
                if blame(e)[0] == "glue":
                    raise Mismatch("viewer-save-raises/%s/%s" % (self.kind, type(e).__name__), repr(e)[:300])
                raise
            try:
                app2 = GlueUnSerializer.loads(text).object("__main__")
            except Exception as e:  # noqa
                raise Mismatch("viewer-restore-raises/%s/%s" % (self.kind, type(e).__name__), repr(e)[:300])
            self.app = app2
            self.dc = app2.data_collection
            vs = [v for tab in app2.viewers for v in tab]
            if len(vs) != 1:
                raise Mismatch("restored-application-has-%d-viewers" % len(vs), None)
            self.viewer = vs[0]
            new_datas = list(self.dc)
            self.expected = []
            for e in exp_idx:
                if e[0] == "d":
                    self.expected.append(new_datas[e[1]])
                else:
                    self.expected.append(new_datas[e[1]].subsets[e[2]])
            self.removed_data = []
        gc.collect()

    def check(self, where):
        if self.viewer is None:
            return
        v = self.viewer
        art = [a.layer for a in v.layers]
        sta = list(v.state.layers_data)
        if sorted(id(x) for x in art) != sorted(id(x) for x in sta):
            raise Mismatch("layer-list-and-state-layer-list-differ/" + self.kind, {"where": where, "artists": [str(x.label) for x in art], "state": [str(x.label) for x in sta]})
        exp = self.expected
        if sorted(id(x) for x in art) != sorted(id(x) for x in exp):
            extra = [x for x in art if not any(x is y for y in exp)]
            missing = [x for x in exp if not any(x is y for y in art)]
            from glue.core.data import BaseData
            datas = list(self.dc)
            stale = [x for x in extra if (isinstance(x, BaseData) and not any(x is d for d in datas)) or
                     (not isinstance(x, BaseData) and (not any(x.data is d for d in datas) or not any(x is s for s in x.data.subsets)))]
            if stale:
                tag = "layer-remains-for-removed-object"
            elif extra and len(set(id(x) for x in art)) < len(art):
                tag = "duplicate-layer"
            elif extra:
                tag = "unexpected-extra-layer"
            else:
                tag = "layer-missing"
            raise Mismatch("%s/%s" % (tag, self.kind), {"where": where, "layers": [str(getattr(x, "label", x)) for x in art], "expected": [str(getattr(x, "label", x)) for x in exp]})
        if self.kind == "image" and v.state.reference_data is not None:
            s = v.state
            pix = s.reference_data.pixel_component_ids
            if s.x_att is s.y_att:
                raise Mismatch("image-axes-not-distinct", where)
            if not any(s.x_att is p for p in pix) or not any(s.y_att is p for p in pix):
                raise Mismatch("image-axes-not-pixel-axes-of-reference-data", where)
            # the two axis pickers offer exactly the reference dataset's world axes (pixel axes if it has no coordinates) and
            # select the attribute that belongs to the displayed pixel axis
            ref = s.reference_data
            offered = list(ref.world_component_ids) if ref.coords is not None else list(pix)
            for name, att in (("x_att_world", s.x_att), ("y_att_world", s.y_att)):
                ch = [c for c in getattr(type(s), name).get_choices(s) if type(c).__name__ != "ChoiceSeparator"]
                if [id(c) for c in ch] != [id(c) for c in offered]:
                    raise Mismatch("image-axis-picker-offers-wrong-attributes/" + name,
                                   {"where": where, "offered": [str(c) for c in ch], "expected": [str(c) for c in offered]})
                val = getattr(s, name)
                if not any(val is c for c in offered):
                    raise Mismatch("image-axis-picker-selection-not-among-choices/" + name, {"where": where, "value": str(val)})
                if offered.index(val) != att.axis:
                    raise Mismatch("image-axis-picker-not-tied-to-displayed-axis/" + name, {"where": where, "picker": str(val), "axis": str(att)})
        # attribute pickers of the viewer state select one of their choices
        for name in ("x_att", "y_att"):
            if hasattr(type(v.state), name) and self.kind != "image":
                try:
                    helper_choices = type(v.state).__dict__[name].get_choices(v.state) if name in type(v.state).__dict__ else None
                except Exception:
                    helper_choices = None
                val = getattr(v.state, name)
                if helper_choices is not None:
                    real = [c for c in helper_choices if not type(c).__name__ == "ChoiceSeparator"]
                    if real and not any(val is c for c in real):
                        raise Mismatch("picker-selection-not-among-choices/%s/%s" % (self.kind, name), {"where": where, "value": str(val)})
                    if not real and val is not None:
                        raise Mismatch("picker-selection-without-choices/%s/%s" % (self.kind, name), where)
                    # choices only from datasets that have a layer
                    owners = {id(getattr(l, "data", l)) for l in art}
                    for c in real:
                        if c is not None and id(c.parent) not in owners:
                            raise Mismatch("picker-offers-attribute-of-dataset-without-layer/%s/%s" % (self.kind, name), {"where": where, "attr": str(c)})


def fn_viewer(spec, rec):
    w = ViewerWorld(spec["kind"])
    w.allow_known = bool(spec.get("allow_known"))
    try:
        for k, op in enumerate(spec["ops"]):
            w.step(op)
            w.check({"step": k, "op": op})
    finally:
        try:
            import matplotlib.pyplot as plt
            plt.close("all")
        except Exception:
            pass
    rec.nt(w.nt)
    rec.label("kind:" + spec["kind"])
    for _ in range(w.skipped_known):
        rec.label("restore-skipped:open-finding-layer-artist-rename")
    if any(op[0] == "restore" for op in spec["ops"]):
        rec.label("has-restore")
    if any(op[0] == "delay" for op in spec["ops"]):
        rec.label("has-delay")
    if w.selected:
        rec.label("has-explicit-selection")
    for x in w.select_raised:
        rec.label("selection-raised:" + x)


# --------------------------------------------------------------------------- combo helpers

def fn_helper(spec, rec):
    from glue.core import Data, DataCollection
    from glue.core.state_objects import State
    from glue.core.data_combo_helper import ComponentIDComboHelper, ManualDataComboHelper
    from echo import SelectionCallbackProperty

    class S(State):
        att = SelectionCallbackProperty()
        data = SelectionCallbackProperty()

    dc = DataCollection()
    pool = []
    for k in range(3):
        d = Data(label="t%d" % k, a=np.arange(3.0) + k, b=np.array([1, 2, 3]), c=np.array(["u", "v", "u"]))
        d.add_component(d.id["a"] * 2, "der")
        if k != 1:
            d.add_component(np.array(["2020-01-0%d" % (i + 1) for i in range(3)], dtype="datetime64[D]"), "when")
        if k == 1:
            from glue.core.coordinates import IdentityCoordinates
            d.coords = IdentityCoordinates(n_dim=1)
        pool.append(d)
        dc.append(d)
    state = S()
    flags = dict(spec["flags"])
    helper = ComponentIDComboHelper(state, "att", data_collection=dc, **flags)
    helper.refresh()
    dhelper = ManualDataComboHelper(state, "data", data_collection=dc)
    attached = []
    dattached = []
    counter = [0]
    nontriv = False

    def expected_choices():
        out = []
        if flags.get("none"):
            out.append(None)
        for d in attached:
            for cid in d.main_components:
                kind = d.get_kind(cid)
                if (kind == "numerical" and flags["numeric"]) or (kind == "categorical" and flags["categorical"]) or (kind == "datetime" and flags["datetime"]):
                    out.append(cid)
            if flags["numeric"] and flags["derived"]:
                out += [c for c in d.derived_components if c.parent is d]
            if flags["pixel_coord"]:
                out += list(d.pixel_component_ids)
            if flags["world_coord"]:
                out += list(d.world_component_ids)
        return out

    def check(where):
        real = [c for c in helper.choices if type(c).__name__ != "ChoiceSeparator"]
        exp = expected_choices()
        if [id(c) for c in real] != [id(c) for c in exp]:
            raise Mismatch("picker-choices-differ-from-filter", {"where": where, "got": [str(c) for c in real], "expected": [str(c) for c in exp], "flags": flags})
        val = state.att
        if real:
            if not any(val is c for c in real):
                raise Mismatch("picker-selection-not-among-choices", {"where": where, "value": str(val)})
        elif val is not None:
            raise Mismatch("picker-selection-without-choices", {"where": where, "value": str(val)})
        dreal = list(dhelper.choices)
        if [id(d) for d in dreal] != [id(d) for d in dattached]:
            raise Mismatch("data-picker-choices-differ", {"where": where, "got": [d.label for d in dreal], "expected": [d.label for d in dattached]})
        if dreal and not any(state.data is d for d in dreal):
            raise Mismatch("data-picker-selection-not-among-choices", {"where": where})
        if not dreal and state.data is not None:
            raise Mismatch("data-picker-selection-without-choices", {"where": where})

    check("setup")
    for k, op in enumerate(spec["ops"]):
        kind = op[0]
        d = pool[op[1] % len(pool)]
        if kind == "attach":
            if not any(d is x for x in attached) and d in dc:
                helper.append_data(d)
                attached.append(d)
        elif kind == "detach":
            if any(d is x for x in attached):
                helper.remove_data(d)
                attached[:] = [x for x in attached if x is not d]
                nontriv = True
        elif kind == "dattach":
            if not any(d is x for x in dattached) and d in dc:
                dhelper.append_data(d)
                dattached.append(d)
        elif kind == "ddetach":
            if any(d is x for x in dattached):
                dhelper.remove_data(d)
                dattached[:] = [x for x in dattached if x is not d]
        elif kind == "dcremove":
            if d in dc:
                if any(d is x for x in attached) or any(d is x for x in dattached):
                    nontriv = True
                dc.remove(d)
                attached[:] = [x for x in attached if x is not d]
                dattached[:] = [x for x in dattached if x is not d]
        elif kind == "dcappend":
            if d not in dc:
                dc.append(d)
        elif kind == "flag":
            name = ["numeric", "categorical", "pixel_coord", "world_coord", "derived", "datetime"][op[2] % 6]
            flags[name] = not flags[name]
            setattr(helper, name, flags[name])
        elif kind == "addcomp":
            counter[0] += 1
            d.add_component(np.zeros(3) + counter[0], "n%d" % counter[0])
        elif kind == "rmcomp":
            extra = [c for c in d.main_components if c.label.startswith("n")]
            if extra:
                if state.att is extra[0]:
                    nontriv = True
                d.remove_component(extra[0])
        elif kind == "rename":
            d.main_components[0].label = "ren%d" % k
        elif kind == "select":
            real = [c for c in helper.choices if type(c).__name__ != "ChoiceSeparator"]
            if real:
                state.att = real[op[2] % len(real)]
        check({"step": k, "op": op})
    rec.nt(nontriv)


# --------------------------------------------------------------------------- State round trip: all callback-property values

def norm_value(v, depth=0):
    from glue.core.component_id import ComponentID
    from glue.core.data import BaseData
    from glue.core.subset import Subset
    import matplotlib.colors as mc
    if isinstance(v, (bool, np.bool_)):
        return bool(v)
    if isinstance(v, (int, np.integer)):
        return float(v)
    if isinstance(v, (float, np.floating)):
        return None if v != v else float(v)
    if isinstance(v, str) or v is None:
        return v
    if isinstance(v, ComponentID):
        return ("cid", getattr(v.parent, "label", None), v.label)
    if isinstance(v, BaseData):
        return ("data", v.label)
    if isinstance(v, Subset):
        return ("subset", v.label, getattr(v.data, "label", None))
    if isinstance(v, mc.Colormap):
        return ("cmap", v.name)
    if isinstance(v, dict) or type(v).__name__ == "CallbackDict":
        return {str(k): norm_value(x, depth + 1) for k, x in dict(v).items()}
    if isinstance(v, (list, tuple)) or type(v).__name__ == "CallbackList":
        if depth > 2:
            return "..."
        return [norm_value(x, depth + 1) for x in v]
    if hasattr(v, "iter_callback_properties"):
        return state_values(v, depth + 1)
    return ("repr", type(v).__name__)


def state_values(state, depth=0):
    out = {}
    for name, prop in sorted(state.iter_callback_properties()):
        if name in ("layers",) and depth > 0:
            continue
        try:
            out[name] = norm_value(getattr(state, name), depth)
        except Exception as e:  # noqa
            out[name] = "unreadable:" + type(e).__name__
    return out


def fn_state_roundtrip(spec, rec):
    from glue.core import Data
    from glue.core.state import GlueSerializer, GlueUnSerializer
    from ..viewers import make_app, viewer_classes
    kind = spec["kind"]
    app = make_app()
    if kind in ("image", "profile"):
        d = Data(label="img", x=np.arange(24.0).reshape(2, 3, 4), y=np.arange(24.0).reshape(2, 3, 4)[::-1] * 2)
    else:
        d = Data(label="tab", x=np.array([0.0, 1.5, 3.0, 4.5]), y=np.array([2.0, 1.0, 5.0, 3.0]), z=np.array([1.0, 2.0, 4.0, 8.0]), c=np.array(["p", "q", "p", "r"]))
    app.data_collection.append(d)
    app.data_collection.new_subset_group(subset_state=d.id["x"] > 1)
    try:
        v = app.new_data_viewer(viewer_classes()[kind], data=d)
        changed = 0
        for m in spec["mutations"]:
            states = [v.state] + list(v.state.layers)
            stt = states[m[0] % len(states)]
            props = sorted(stt.iter_callback_properties())
            name, prop = props[m[1] % len(props)]
            if name in ("layers", "layer"):
                continue
            cur = getattr(stt, name)
            new = None
            choices = None
            if hasattr(prop, "get_choices"):
                try:
                    choices = [c for c in prop.get_choices(stt) if type(c).__name__ != "ChoiceSeparator"]
                except Exception:
                    choices = None
            if choices:
                new = choices[m[2] % len(choices)]
            elif isinstance(cur, (bool, np.bool_)):
                new = not cur
            elif isinstance(cur, (int, np.integer)):
                new = int(cur) + 1 + m[2] % 3
            elif isinstance(cur, (float, np.floating)) and cur == cur:
                new = float(cur) + [0.5, -0.25, 1.75][m[2] % 3]
            else:
                continue
            try:
                setattr(stt, name, new)
                changed += 1
            except Exception as e:  # noqa
                rec.label("setter-rejects:" + type(e).__name__)
        before = state_values(v.state)
        try:
            text = GlueSerializer(v.state).dumps()
        except Exception as e:  # noqa
            rec.label("loud-at-save:" + type(e).__name__)
            return
        try:
            st2 = GlueUnSerializer.loads(text).object("__main__")
        except Exception as e:  # noqa
            raise Mismatch("state-restore-raises/%s/%s" % (kind, type(e).__name__), repr(e)[:400])
        after = state_values(st2)
        from ..session import first_difference
        # What the property states about a restored state: the same layers, every picker selects one of its choices (or nothing
        # when there are none), image axes are distinct pixel axes of the reference data.  Other property values (limits, modes,
        # percentiles, ...) are compared too, but a difference there is only counted: the property does not speak about them.
        if len(before.get("layers") or []) != len(after.get("layers") or []):
            raise Mismatch("state-roundtrip-differs/%s/number-of-layers" % kind, {"before": len(before.get("layers") or []), "after": len(after.get("layers") or [])})
        for stt in [st2] + list(st2.layers):
            for name, prop in sorted(stt.iter_callback_properties()):
                if not hasattr(prop, "get_choices"):
                    continue
                try:
                    choices = [c for c in prop.get_choices(stt) if type(c).__name__ != "ChoiceSeparator"]
                except Exception:
                    continue
                val = getattr(stt, name)
                if choices and not any(val is c or val == c for c in choices):
                    raise Mismatch("restored-picker-selection-not-among-choices/%s/%s" % (kind, name), {"value": str(val), "choices": [str(c) for c in choices]})
                if not choices and val is not None:
                    raise Mismatch("restored-picker-selection-without-choices/%s/%s" % (kind, name), {"value": str(val)})
        if kind == "image" and st2.reference_data is not None:
            pix = st2.reference_data.pixel_component_ids
            if st2.x_att is st2.y_att:
                raise Mismatch("restored-image-axes-not-distinct", {"x_att": str(st2.x_att)})
            if not any(st2.x_att is p for p in pix) or not any(st2.y_att is p for p in pix):
                raise Mismatch("restored-image-axes-not-pixel-axes-of-reference-data", None)
        diff = first_difference(before, after)
        if diff:
            rec.label("other-value-differs-after-restore:%s:%s" % (kind, diff[0].strip("/").split("/")[-1] if not diff[0].strip("/").split("/")[-1].isdigit() else diff[0].strip("/").split("/")[-2]))
    finally:
        try:
            import matplotlib.pyplot as plt
            plt.close("all")
        except Exception:
            pass
    rec.nt(changed >= 2)
    rec.label("kind:" + kind)


state_cases = st.fixed_dictionaries({"kind": st.sampled_from(["scatter", "histogram", "image", "profile"]),
                                     "mutations": st.lists(st.tuples(st.integers(0, 3), st.integers(0, 80), st.integers(0, 7)).map(list), min_size=1, max_size=10)})


# --------------------------------------------------------------------------- generators

idx = st.integers(0, 5)
simple = st.one_of(
    st.tuples(st.just("append")), st.tuples(st.just("remove"), idx), st.tuples(st.just("reappend"), idx), st.tuples(st.just("group"), idx),
    st.tuples(st.just("rmgroup"), idx), st.tuples(st.just("addcomp"), idx), st.tuples(st.just("rmcomp"), idx),
    st.tuples(st.just("add_data"), idx), st.tuples(st.just("add_data"), idx), st.tuples(st.just("add_subset"), idx, idx),
    st.tuples(st.just("remove_data"), idx), st.tuples(st.just("remove_layer"), idx), st.tuples(st.just("select"), idx, idx),
).map(list)
vop = st.one_of(simple, simple, simple, simple, st.tuples(st.just("delay"), st.lists(simple, min_size=1, max_size=3)).map(list), st.tuples(st.just("restore")).map(list))


def viewer_cases(maxops):
    return st.fixed_dictionaries({"kind": st.sampled_from(["scatter", "histogram", "image", "profile"]),
                                  "ops": st.tuples(st.just([["append"], ["add_data", 0]]), st.lists(vop, min_size=2, max_size=maxops)).map(lambda t: t[0] + t[1])})


# image viewers whose reference dataset moves between datasets with and without world coordinates
ref_op = st.one_of(st.tuples(st.just("add_data"), idx), st.tuples(st.just("add_data"), idx), st.tuples(st.just("remove"), idx), st.tuples(st.just("remove_data"), idx),
                   st.tuples(st.just("reappend"), idx), st.tuples(st.just("select"), idx, idx), st.tuples(st.just("select"), st.just(2), idx),
                   st.tuples(st.just("append")), st.tuples(st.just("restore"))).map(list)
image_ref_cases = st.fixed_dictionaries({"kind": st.just("image"),
                                         "ops": st.tuples(st.sampled_from([[["append"], ["append"], ["add_data", 0]], [["append"], ["append"], ["add_data", 1]],
                                                                           [["append"], ["append"], ["append"], ["append"], ["add_data", 2]]]),
                                                          st.lists(ref_op, min_size=2, max_size=8)).map(lambda t: t[0] + t[1])})


# viewers that hold subset layers without (or before) the layer of the subset's dataset
sub_op = st.one_of(st.tuples(st.just("rmgroup"), idx), st.tuples(st.just("rmgroup"), idx), st.tuples(st.just("group"), idx), st.tuples(st.just("add_subset"), idx, idx),
                   st.tuples(st.just("add_data"), idx), st.tuples(st.just("remove_data"), idx), st.tuples(st.just("remove"), idx), st.tuples(st.just("remove_layer"), idx),
                   st.tuples(st.just("append")), st.tuples(st.just("restore")),
                   st.tuples(st.just("delay"), st.lists(st.one_of(st.tuples(st.just("rmgroup"), idx), st.tuples(st.just("group"), idx), st.tuples(st.just("remove"), idx)).map(list),
                                                        min_size=1, max_size=2))).map(list)
subset_layer_cases = st.fixed_dictionaries({"kind": st.sampled_from(["scatter", "histogram", "image", "profile"]),
                                            "ops": st.tuples(st.sampled_from([[["append"], ["group", 0], ["add_subset", 0, 0]],
                                                                              [["append"], ["append"], ["group", 1], ["add_subset", 0, 1]],
                                                                              [["append"], ["group", 0], ["group", 1], ["add_subset", 1, 0], ["add_data", 0]]]),
                                                             st.lists(sub_op, min_size=1, max_size=6)).map(lambda t: t[0] + t[1])})


hop = st.one_of(st.tuples(st.sampled_from(["attach", "attach", "detach", "dattach", "ddetach", "dcremove", "dcappend", "flag", "addcomp", "rmcomp", "rename", "select"]), idx, idx)).map(list)
helper_cases = st.fixed_dictionaries({
    "flags": st.fixed_dictionaries({"numeric": st.booleans(), "categorical": st.booleans(), "pixel_coord": st.booleans(), "world_coord": st.booleans(),
                                    "derived": st.booleans(), "datetime": st.booleans(), "none": st.sampled_from([False, False, True])}),
    "ops": st.lists(hop, min_size=2, max_size=20)})


def checks(tier):
    n = {"quick": (96, 12, 800, 128, 96, 128), "thorough": (960, 20, 8000, 1280, 960, 1280)}.get(tier, (4, 6, 10, 4, 4, 4))
    return [
        Check("viewer_histories", fn_viewer, strategy=viewer_cases(n[1]), examples=n[0]),
        Check("combo_helpers", fn_helper, strategy=helper_cases, examples=n[2]),
        Check("state_roundtrip", fn_state_roundtrip, strategy=state_cases, examples=n[3]),
        Check("image_reference_histories", fn_viewer, strategy=image_ref_cases, examples=n[4]),
        Check("subset_layer_histories", fn_viewer, strategy=subset_layer_cases, examples=n[5]),
    ]
