"""C13  Undo restores the previous session state and redo restores the undone one.

Op-list histories on a real Session/CommandStack.  The oracle is a stack of snapshots taken
before and after each command: undo must reproduce the 'before' snapshot, redo the 'after' one.
"""
import gc

import numpy as np
from hypothesis import strategies as st

from .. import gen
from ..common import Check, Mismatch, blame

PROPERTY = "C13"
RULE = ("op-list histories (<=30 steps) over do(AddData), do(RemoveData), do(ApplySubsetState(state, override_mode?)) under a generated edit "
        "mode and edit-subset choice (none/one/several groups), do(ApplyROI(roi, apply_func)), undo, redo, direct changes of the edit-subset "
        "choice, plus long runs of >50 commands. Oracle: stack of snapshots (datasets; per group label, style, per-dataset mask; edit-subset "
        "choice; can_undo_redo). Non-trivial = history undoes and redoes a command that created a group or removed a dataset carrying "
        "subsets; distinct by spec hash.")
ASSUMPTIONS = [
    "dataset order in the collection is not compared (RemoveData.undo appends)",
    "once a redo has re-created a group, group labels and styles are no longer compared in that history (DataCollection numbers and colours new groups sequentially); selections and membership still are",
    "the edit mode is fixed per history (a redo re-executes the command in the current mode); a direct change of the edit-subset choice starts a fresh CommandStack",
]

MODES = ["Replace", "And", "Or", "Xor", "AndNot", "New"]
N = 4


class World:
    def __init__(self, mode):
        from glue.core import DataCollection
        from glue.core.session import Session
        from glue.core import edit_subset_mode as E
        self.E = E
        self.modes = {"Replace": E.ReplaceMode, "And": E.AndMode, "Or": E.OrMode, "Xor": E.XorMode, "AndNot": E.AndNotMode, "New": E.NewMode}
        self.dc = DataCollection()
        self.session = Session(data_collection=self.dc)
        self.session.edit_subset_mode.mode = self.modes[mode]
        self.stack = self.session.command_stack
        self.pool = []          # every dataset ever created
        self.undo_model = []    # (before, after, kind)
        self.redo_model = []
        self.counter = 0
        self.flag_nt = False
        self.kinds_undone = set()
        self.cosmetics_tainted = False   # a redo re-created a group (new sequential label/colour): labels are no longer compared

    def new_data(self, seed):
        from glue.core import Data
        self.counter += 1
        d = Data(label="d%d" % self.counter, x=np.array([(seed + i * 2) % 5 for i in range(N)], dtype=float),
                 y=np.array([(seed * 3 + i) % 4 for i in range(N)], dtype=float))
        self.pool.append(d)
        return d

    def state_for(self, k, j):
        from glue.core.subset import ElementSubsetState, SliceSubsetState, RoiSubsetState
        datas = list(self.dc) or self.pool
        if k % 4 == 0 or not datas:
            return ElementSubsetState(indices=[j % N, (j + k) % N])
        d = datas[j % len(datas)]
        if k % 4 == 1:
            return d.id["x"] > float(k % 3)
        if k % 4 == 2:
            return SliceSubsetState(d, [slice(j % 2, 2 + j % 3)])
        return RoiSubsetState(d.id["x"], d.id["y"], gen.build_roi({"k": "rect", "xmin": -0.5, "xmax": 1.5 + k % 3, "ymin": -0.5, "ymax": 2.5}))

    def snapshot(self):
        from glue.core.exceptions import IncompatibleAttribute
        dc = self.dc
        datas = list(dc)
        groups = list(dc.subset_groups)
        gsnap = []
        for g in groups:
            masks = {}
            for d in datas:
                try:
                    masks[id(d)] = tuple(np.asarray(d.get_mask(g.subset_state)).astype(int).tolist())
                except IncompatibleAttribute:
                    masks[id(d)] = "incompatible"
            st_ = g.style
            gsnap.append({"label": g.label, "style": (st_.color, st_.alpha, st_.markersize, st_.linewidth), "masks": masks})
        per_data = {}
        for d in datas:
            lst = []
            for s in d.subsets:
                try:
                    m = tuple(np.asarray(s.to_mask()).astype(int).tolist())
                except IncompatibleAttribute:
                    m = "incompatible"
                lst.append((s.label, m))
            per_data[id(d)] = sorted(lst, key=repr)
        es = self.session.edit_subset_mode.edit_subset
        es = list(es) if isinstance(es, (list, tuple)) else ([es] if es is not None else [])
        pos = []
        for e in es:
            idx = [i for i, g in enumerate(groups) if g is e]
            pos.append(idx[0] if idx else "not-a-live-group")
        return {"datasets": frozenset(id(d) for d in datas), "groups": gsnap, "per_data": per_data, "edit": pos,
                "undo_redo": tuple(self.stack.can_undo_redo())}

    def compare(self, got, exp, what, ignore_new_group_cosmetics_from=None):
        if got["datasets"] != exp["datasets"]:
            raise Mismatch(what + "/datasets-differ", None)
        if len(got["groups"]) != len(exp["groups"]):
            raise Mismatch(what + "/number-of-groups-differs", {"got": len(got["groups"]), "expected": len(exp["groups"])})
        for i, (a, b) in enumerate(zip(got["groups"], exp["groups"])):
            if a["masks"] != b["masks"]:
                raise Mismatch(what + "/group-selection-differs", {"group": i, "got": list(a["masks"].values()), "expected": list(b["masks"].values())})
            cosmetic = self.cosmetics_tainted or (ignore_new_group_cosmetics_from is not None and i >= ignore_new_group_cosmetics_from)
            if not cosmetic and (a["label"] != b["label"] or a["style"] != b["style"]):
                raise Mismatch(what + "/group-label-or-style-differs", {"group": i, "got": [a["label"], a["style"]], "expected": [b["label"], b["style"]]})
        for k in exp["per_data"]:
            a = [m for _, m in got["per_data"].get(k, [])]
            b = [m for _, m in exp["per_data"][k]]
            if sorted(a, key=repr) != sorted(b, key=repr):
                raise Mismatch(what + "/dataset-subsets-differ", {"got": a, "expected": b})
        if got["edit"] != exp["edit"]:
            raise Mismatch(what + "/edit-subset-choice-differs", {"got": got["edit"], "expected": exp["edit"]})
        if got["undo_redo"] != exp["undo_redo"]:
            raise Mismatch(what + "/can_undo_redo-differs", {"got": got["undo_redo"], "expected": exp["undo_redo"]})

    def do(self, cmd, kind):
        before = self.snapshot()
        ngroups = len(self.dc.subset_groups)
        self.stack.do(cmd)
        gc.collect()
        after = self.snapshot()
        created_group = len(self.dc.subset_groups) > ngroups
        self.undo_model.append((before, after, kind, created_group, ngroups))
        self.undo_model = self.undo_model[-50:]
        self.redo_model = []
        if len(self.stack._command_stack) > 50:
            raise Mismatch("undo-history-exceeds-bound", len(self.stack._command_stack))
        exp_ur = (True, False)
        if tuple(self.stack.can_undo_redo()) != exp_ur:
            raise Mismatch("do/can_undo_redo-differs", {"got": self.stack.can_undo_redo()})

    def step(self, op):
        from glue.core import command as C
        k = op[0]
        dc = self.dc
        if k == "add":
            self.do(C.AddData(data=self.new_data(op[1])), "add")
        elif k == "readd":
            out = [d for d in self.pool if d not in dc]
            if not out:
                return False
            self.do(C.AddData(data=out[op[1] % len(out)]), "add")
        elif k == "remove":
            datas = list(dc)
            if not datas:
                return False
            d = datas[op[1] % len(datas)]
            carried = len(d.subsets) > 0
            self.do(C.RemoveData(data=d), "remove-with-subsets" if carried else "remove")
        elif k == "apply":
            kw = {}
            if op[3] is not None:
                kw["override_mode"] = self.modes[op[3]]
            self.do(C.ApplySubsetState(data_collection=dc, subset_state=self.state_for(op[1], op[2]), **kw), "apply")
        elif k == "roi":
            datas = list(dc)
            if not datas:
                return False
            d = datas[op[2] % len(datas)]
            from glue.core.subset import RoiSubsetState
            session = self.session

            def apply_func(roi, d=d):
                session.edit_subset_mode.update(dc, RoiSubsetState(d.id["x"], d.id["y"], roi))
            roi = gen.build_roi({"k": "circ", "xc": float(op[1] % 3), "yc": 1.0, "r": 1.25})
            self.do(C.ApplyROI(data_collection=dc, roi=roi, apply_func=apply_func), "apply")
        elif k == "undo":
            if not self.undo_model:
                try:
                    self.stack.undo()
                except IndexError:
                    return True
                raise Mismatch("undo-on-empty-history-did-not-raise", None)
            before, after, kind, created, ng = self.undo_model.pop()
            self.redo_model.append((before, after, kind, created, ng))
            self.stack.undo()
            gc.collect()
            exp = dict(before)
            exp["undo_redo"] = (len(self.undo_model) > 0, True)
            self.compare(self.snapshot(), exp, "undo/" + kind + ("/group-created" if created else ""))
            self.kinds_undone.add((kind, created))
        elif k == "redo":
            if not self.redo_model:
                try:
                    self.stack.redo()
                except IndexError:
                    return True
                raise Mismatch("redo-without-undone-command-did-not-raise", None)
            before, after, kind, created, ng = self.redo_model.pop()
            self.undo_model.append((before, after, kind, created, ng))
            self.stack.redo()
            gc.collect()
            if created:
                self.cosmetics_tainted = True
            exp = dict(after)
            exp["undo_redo"] = (True, len(self.redo_model) > 0)
            self.compare(self.snapshot(), exp, "redo/" + kind + ("/group-created" if created else ""), ignore_new_group_cosmetics_from=ng if created else None)
            if (kind, created) in self.kinds_undone and (created or kind == "remove-with-subsets"):
                self.flag_nt = True
        elif k == "edit":
            # a direct (non-command) change of the edit-subset choice starts a fresh command history, so that what
            # "before the command" means for the choice is never ambiguous
            from glue.core.command import CommandStack
            self.stack = self.session.command_stack = CommandStack()
            self.stack.session = self.session
            self.undo_model, self.redo_model = [], []
            groups = list(dc.subset_groups)
            if not groups:
                choice = []
            else:
                choice = [groups[i % len(groups)] for i in op[1]]
                choice = [g for n, g in enumerate(choice) if all(g is not h for h in choice[:n])]
            self.session.edit_subset_mode.edit_subset = choice
        elif k == "burst":
            for i in range(op[1]):
                self.do(C.ApplySubsetState(data_collection=dc, subset_state=self.state_for(i, i + 1)), "apply")
        else:
            raise ValueError(k)
        return True


def fn_history(spec, rec):
    w = World(spec["mode"])
    for s in spec["setup"]:
        w.dc.append(w.new_data(s))
    for k, op in enumerate(spec["ops"]):
        try:
            w.step(op)
        except Mismatch as m:
            m.detail = {"step": k, "op": op, "detail": m.detail}
            raise
    rec.nt(w.flag_nt)
    kinds = {op[0] for op in spec["ops"]}
    for k in ("burst", "roi", "edit", "readd"):
        if k in kinds:
            rec.label("has:" + k)
    rec.label("mode:" + spec["mode"])


idx = st.integers(0, 6)
op = st.one_of(
    st.tuples(st.just("add"), idx), st.tuples(st.just("readd"), idx), st.tuples(st.just("remove"), idx),
    st.tuples(st.just("apply"), idx, idx, st.one_of(st.none(), st.sampled_from(MODES))),
    st.tuples(st.just("apply"), idx, idx, st.one_of(st.none(), st.sampled_from(MODES))),
    st.tuples(st.just("roi"), idx, idx),
    st.tuples(st.just("undo")), st.tuples(st.just("undo")), st.tuples(st.just("redo")), st.tuples(st.just("redo")),
    st.tuples(st.just("edit"), st.lists(idx, max_size=3)),
).map(list)

cases = st.fixed_dictionaries({"mode": st.sampled_from(MODES), "setup": st.lists(idx, min_size=0, max_size=2),
                               "ops": st.lists(op, min_size=2, max_size=30)})
long_cases = st.fixed_dictionaries({"mode": st.sampled_from(MODES), "setup": st.lists(idx, min_size=1, max_size=2),
                                    "ops": st.tuples(st.lists(op, max_size=4), st.just([["burst", 52]]), st.lists(op, max_size=6)).map(lambda t: t[0] + t[1] + t[2])})


cmd = st.one_of(
    st.tuples(st.just("apply"), idx, idx, st.one_of(st.none(), st.sampled_from(MODES))), st.tuples(st.just("apply"), idx, idx, st.just("New")),
    st.tuples(st.just("remove"), idx), st.tuples(st.just("add"), idx), st.tuples(st.just("readd"), idx), st.tuples(st.just("roi"), idx, idx)).map(list)


@st.composite
def structured_cases(draw):
    """k commands, u undos, r <= u redos (twice): every history undoes and redoes something"""
    ops = []
    for _ in range(draw(st.integers(1, 2))):
        k = draw(st.integers(1, 5))
        ops += [draw(cmd) for _ in range(k)]
        u = draw(st.integers(1, k))
        ops += [["undo"]] * u
        ops += [["redo"]] * draw(st.integers(0, u))
        if draw(st.booleans()):
            ops += [["undo"]] * draw(st.integers(1, 2))
    return {"mode": draw(st.sampled_from(MODES)), "setup": draw(st.lists(idx, min_size=1, max_size=2)), "ops": ops}


def checks(tier):
    n, m = {"quick": (2000, 48), "thorough": (20000, 400)}.get(tier, (10, 2))
    return [
        Check("undo_redo_histories", fn_history, strategy=cases, examples=n),
        Check("long_runs", fn_history, strategy=long_cases, examples=m),
        Check("structured_histories", fn_history, strategy=structured_cases(), examples=n),
    ]
