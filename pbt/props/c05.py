"""C05  Results always reflect the current data, regions and links - never a stale cache.

Op-list histories interleave reads with mutations on long-lived objects.  The oracle is a *fresh
rebuild*: the current parameters are extracted from the live objects (values, ROI fields, bounds,
links), brand-new objects are built from them, and every observable must agree.
"""
import gc

import numpy as np
from hypothesis import strategies as st

from .. import gen
from .. import reset as reset_mod
from ..common import Check, Mismatch, blame

PROPERTY = "C05"
RULE = ("op-list histories (<=20 steps): reads (mask with generated view, compute_statistic, compute_histogram, derived value, values of a "
        "linked attribute) interleaved with mutations (update_components, update_values_from_data incl. new shape, move_to, ROI field "
        "edits, state setters lo/hi/right/operator/pairs/categories/mask/slices/start_coords/threshold at any depth of a composite, "
        "replacing a group's state, add/remove/replace link) on 1-2 datasets with 1-3 subset groups; plus histogram layer states "
        "(settings: x_att, limits, bins, log, normalize, cumulative; data updates through a live viewer). Oracle: the same observable "
        "from freshly built, never-evaluated copies. Non-trivial = read -> mutation -> read of the same observable where the mutation "
        "changes the fresh result; distinct by spec hash.")
ASSUMPTIONS = [
    "the fresh copy is rebuilt from parameters read back from the live objects (so what move_to does to the parameters is C08's subject, not C05's)",
    "histogram/profile results shown by a viewer are observed through a live viewer for data updates (their invalidation is wired through hub messages)",
    "a mismatch that disappears when every memo cache is cleared is classified as memo staleness, with the mutation kind in the signature",
]

N1 = 5


def f_shift(x):
    return x + 1.0


def f_double(x):
    return x * 2.0


LINK_FUNCS = {"shift": f_shift, "double": f_double}


class World:
    def __init__(self, spec, fresh_from=None):
        from glue.core import Data, DataCollection
        from glue.core.component_link import ComponentLink
        self.spec = spec
        src = fresh_from
        shape = tuple(spec["shape"]) if src is None else tuple(src.d0.shape)
        n = int(np.prod(shape))
        self.d0 = Data(label="d0")
        if src is None:
            a = np.array(spec["a"][:n] + [0.0] * max(0, n - len(spec["a"])), dtype=float).reshape(shape)
            b = (np.arange(n) % 3).astype(float).reshape(shape)
            comps = [("a", a), ("b", b)]
            if len(shape) == 1:
                comps.append(("c", np.array(["x", "y", "z"] * n)[:n]))
            comps.append(("spare", np.arange(n, dtype=float).reshape(shape)))     # used by no selection: a refresh may drop / re-add it
        else:
            comps = [(c.label, np.array(src.d0.get_component(c).data)) for c in src.d0.main_components]
        for name, arr in comps:
            self.d0.add_component(arr, name)
        self.plain = bool(spec.get("plain")) if src is None else src.plain
        if not self.plain:      # (a plain collection has no links of any kind except the one the history manages)
            self.d0.add_component(self.d0.id["a"] * 2 + 1, "der")
        if src is None:
            p = np.arange(N1, dtype=float)
        else:
            p = np.array(src.d1.get_component(src.d1.id["p"]).data)
        self.d1 = Data(label="d1", p=p, q=(p * p - 3.0))      # two possible sources for the link to d0.a
        self.dc = DataCollection([self.d0, self.d1])
        self.link_kind = spec["link"] if src is None else src.link_kind
        self.link_src = "p" if src is None else src.link_src
        self.link = None
        if self.link_kind:
            self.link = self.make_link(self.link_kind, self.link_src)
            self.dc.add_link(self.link)
        self.listener = None
        if src is None and spec.get("listener"):
            # stands in for viewer layers: re-reads every group's mask on every hub message, also in the middle of an update
            from glue.core.hub import HubListener
            from glue.core.message import Message
            world = self

            class Reader(HubListener):
                def notify(self_, msg):
                    for g in list(world.groups):
                        for d in (world.d0, world.d1):
                            try:
                                d.get_mask(g.subset_state)
                            except Exception:  # noqa  (incompatible, or an inconsistent intermediate state)
                                pass
            self.listener = Reader()
            self.dc.hub.subscribe(self.listener, Message, handler=self.listener.notify)
        self.groups = []
        if src is None:
            for t in spec["groups"]:
                self.groups.append(self.dc.new_subset_group(subset_state=gen.build_state(t, self.d0)))
            if spec.get("shared_multior"):
                # a many-way 'or' whose first member is the very state object of the first group (MultiOrState keeps the
                # objects it is given): evaluating one must not disturb what the other returns
                from glue.core.subset import MultiOrState
                self.groups.append(self.dc.new_subset_group(subset_state=MultiOrState([self.groups[0].subset_state, gen.build_state(spec["spare"], self.d0)])))
        else:
            for g in src.groups:
                self.groups.append(self.dc.new_subset_group(subset_state=rebuild_state(g.subset_state, src.d0, self.d0)))

    def make_link(self, kind, src):
        from glue.core.component_link import ComponentLink
        if kind == "identity":
            return ComponentLink([self.d1.id[src]], self.d0.id["a"])
        return ComponentLink([self.d1.id[src]], self.d0.id["a"], using=LINK_FUNCS[kind])

    def relink(self, kind, src="p", how=0):
        """how: 0 remove then add, 1 set_links, 2 both inside delay_link_manager_update, 3 list forms"""
        old = self.link
        new = self.make_link(kind, src) if kind else None
        if how == 1:
            self.dc.set_links([new] if new is not None else [])
        elif how == 2:
            with self.dc.delay_link_manager_update():
                if old is not None:
                    self.dc.remove_link(old)
                if new is not None:
                    self.dc.add_link(new)
        elif how == 3:
            if old is not None:
                self.dc.remove_link([old])
            if new is not None:
                self.dc.add_link([new])
        else:
            if old is not None:
                self.dc.remove_link(old)
            if new is not None:
                self.dc.add_link(new)
        self.link = new
        self.link_kind = kind
        self.link_src = src


def map_cid(cid, src, dst):
    for i, c in enumerate(src.main_components):
        if c is cid:
            return dst.main_components[i]
    for i, c in enumerate(src.pixel_component_ids):
        if c is cid:
            return dst.pixel_component_ids[i]
    for i, c in enumerate(src.derived_components):
        if c is cid:
            return dst.derived_components[i]
    raise KeyError(str(cid))


def rebuild_roi(roi):
    from glue.core import roi as R
    if isinstance(roi, R.RectangularROI):
        return R.RectangularROI(roi.xmin, roi.xmax, roi.ymin, roi.ymax, theta=roi.theta)
    if isinstance(roi, R.CircularROI):
        return R.CircularROI(roi.xc, roi.yc, roi.radius)
    if isinstance(roi, R.EllipticalROI):
        return R.EllipticalROI(roi.xc, roi.yc, roi.radius_x, roi.radius_y, theta=roi.theta)
    if isinstance(roi, R.PolygonalROI):
        return R.PolygonalROI(list(roi.vx), list(roi.vy))
    if isinstance(roi, R.RangeROI):
        return R.RangeROI(roi.ori, roi.min, roi.max)
    if isinstance(roi, R.CategoricalROI):
        return R.CategoricalROI(None if roi.categories is None else list(roi.categories))
    raise TypeError(type(roi))


def rebuild_state(s, src, dst):
    """Parameters read back from the live state -> brand-new state on the fresh dataset."""
    from glue.core import subset as S
    m = lambda c: map_cid(c, src, dst)  # noqa
    t = type(s)
    if t is S.InequalitySubsetState:
        left = m(s.left) if not isinstance(s.left, (int, float, str)) else s.left
        right = m(s.right) if not isinstance(s.right, (int, float, str)) else s.right
        return S.InequalitySubsetState(left, right, s.operator)
    if t is S.RangeSubsetState:
        return S.RangeSubsetState(s.lo, s.hi, att=m(s.att))
    if t is S.MultiRangeSubsetState:
        return S.MultiRangeSubsetState([tuple(p) for p in s.pairs], att=m(s.att))
    if t is S.RoiSubsetState:
        return S.RoiSubsetState(m(s.xatt), m(s.yatt), rebuild_roi(s.roi))
    if t is S.MaskSubsetState:
        return S.MaskSubsetState(np.array(s.mask, copy=True), dst.pixel_component_ids)
    if t is S.SliceSubsetState:
        return S.SliceSubsetState(dst, [slice(x.start, x.stop, x.step) for x in s.slices])
    if t is S.ElementSubsetState:
        return S.ElementSubsetState(indices=list(s.indices), data=dst)
    if t is S.SubsetState:
        return S.SubsetState()
    if t is S.CategoricalROISubsetState:
        return S.CategoricalROISubsetState(att=m(s.att), roi=rebuild_roi(s.roi))
    if t is S.CategorySubsetState:
        return S.CategorySubsetState(m(s.att), list(np.asarray(s.categories).tolist()))
    if t is S.FloodFillSubsetState:
        return S.FloodFillSubsetState(dst, m(s.att), tuple(s.start_coords), s.threshold)
    if t in (S.AndState, S.OrState, S.XorState):
        return t(rebuild_state(s.state1, src, dst), rebuild_state(s.state2, src, dst))
    if t is S.InvertState:
        return S.InvertState(rebuild_state(s.state1, src, dst))
    if t is S.MultiOrState:
        return S.MultiOrState([rebuild_state(c, src, dst) for c in s.states])
    raise TypeError(t)


def nodes_of(state, path=()):
    from glue.core import subset as S
    out = [(path, state)]
    if isinstance(state, S.CompositeSubsetState):
        out += nodes_of(state.state1, path + ("1",))
        if state.state2 is not None:
            out += nodes_of(state.state2, path + ("2",))
    elif isinstance(state, S.MultiOrState):
        for i, c in enumerate(state.states):
            out += nodes_of(c, path + ("m%d" % i,))
    return out


def mutate_state(state, k, j):
    """In-place edit of one elementary state; returns a tag or None if nothing was edited."""
    from glue.core import subset as S
    from glue.core import roi as R
    import operator
    t = type(state)
    if t is S.InequalitySubsetState:
        if k % 2 == 0 and isinstance(state.right, (int, float)):
            state.right = float(state.right) + (1.0 if j % 2 else -1.5)
            return "setter:right"
        state.operator = operator.lt if state.operator is not operator.lt else operator.ge
        return "setter:operator"
    if t is S.RangeSubsetState:
        if k % 3 == 0:
            state.lo = state.lo - 1.0
            return "setter:lo"
        if k % 3 == 1:
            state.hi = state.hi + 1.5
            return "setter:hi"
        state.move_to(state.center() + 1.0)
        return "move_to:range"
    if t is S.MultiRangeSubsetState:
        if k % 2 and isinstance(state.pairs, list):
            # edit the parameter object in place, then hand the same object back through the public setter
            pairs = state.pairs
            pairs.append((float(j % 4), float(j % 4) + 1.0))
            state.pairs = pairs
            return "inplace+reassign:pairs"
        state.pairs = [(lo - 1.0, hi) for lo, hi in state.pairs] + [(3.0, 4.0)]
        return "setter:pairs"
    if t is S.RoiSubsetState:
        roi = state.roi
        if j % 5 == 4 and state.xatt is not state.yatt:
            state.xatt, state.yatt = state.yatt, state.xatt        # the attributes behind the region are settable too
            return "setter:xatt+yatt"
        if k % 2 == 0:
            c = roi.center()
            if isinstance(c, tuple):
                state.move_to(c[0] + 1.0, c[1] + 0.5)
            else:
                state.move_to(c + 1.0)
            return "move_to:roi"
        if k % 4 == 3 and isinstance(roi, (R.RectangularROI, R.CircularROI)):
            # edit the region in place, then re-assign the same object through the state's setter
            if isinstance(roi, R.RectangularROI):
                roi.update_limits(roi.xmin - 1.0, roi.ymin, roi.xmax + 1.0, roi.ymax + 0.5)
            else:
                roi.set_radius(roi.radius + 1.0)
            state.roi = roi
            return "inplace+reassign:roi"
        if isinstance(roi, R.RectangularROI):
            roi.xmax = roi.xmax + 1.0
            return "roi-field:xmax"
        if isinstance(roi, R.CircularROI):
            roi.radius = roi.radius + 1.0
            return "roi-field:radius"
        if isinstance(roi, R.RangeROI):
            roi.max = roi.max + 1.0
            return "roi-field:max"
        if isinstance(roi, R.EllipticalROI):
            roi.radius_x = roi.radius_x + 1.0
            return "roi-field:radius_x"
        if isinstance(roi, R.PolygonalROI):
            roi.vx = [v + 1.0 for v in roi.vx]
            return "roi-field:vx"
        return None
    if t is S.MaskSubsetState and k % 2:
        m = state.mask
        if m.flags.writeable:
            m.flat[j % m.size] = not m.flat[j % m.size]
            state.mask = m
            return "inplace+reassign:mask"
    if t is S.MaskSubsetState:
        m = np.array(state.mask, copy=True)
        m.flat[j % m.size] = not m.flat[j % m.size]
        state.mask = m
        return "setter:mask"
    if t is S.SliceSubsetState:
        state.slices = [slice(0, 1 + j % 3)] + list(state.slices[1:])
        return "setter:slices"
    if t is S.CategoricalROISubsetState:
        state.roi = R.CategoricalROI(["x", "z"] if j % 2 else ["y"])
        return "setter:roi(categorical)"
    if t is S.CategorySubsetState:
        if k % 2 and isinstance(state.categories, np.ndarray) and state.categories.size and state.categories.flags.writeable:
            c = state.categories
            c[0] = (int(c[0]) + 1) % 3
            state.categories = c
            return "inplace+reassign:categories"
        state.categories = np.array([j % 3])
        return "setter:categories"
    if t is S.FloodFillSubsetState:
        if k % 2:
            state.threshold = state.threshold + 0.5
            return "setter:threshold"
        state.start_coords = tuple((c + 1) % s for c, s in zip(state.start_coords, state.data.shape))
        return "setter:start_coords"
    return None


def observe(w, obs_specs):
    """Every observable of the world, as comparable values."""
    from glue.core.exceptions import IncompatibleAttribute
    out = {}
    for gi, g in enumerate(w.groups):
        for dn, d in (("d0", w.d0), ("d1", w.d1)):
            try:
                out["mask/g%d/%s" % (gi, dn)] = np.asarray(d.get_mask(g.subset_state)).astype(int).tolist()
            except IncompatibleAttribute:
                out["mask/g%d/%s" % (gi, dn)] = "incompatible"
        for vs in obs_specs["views"]:
            if tuple(w.d0.shape) != tuple(obs_specs["shape"]):
                break       # the views were generated for the original shape
            view = gen.build_view(vs, w.d0.shape)
            try:
                out["maskview/g%d/%s" % (gi, gen.canon_view(vs))] = np.asarray(w.d0.get_mask(g.subset_state, view)).astype(int).tolist()
            except Exception as e:  # noqa
                out["maskview/g%d/%s" % (gi, gen.canon_view(vs))] = "raises:" + type(e).__name__
        for stat in obs_specs["stats"]:
            try:
                v = w.d0.compute_statistic(stat, w.d0.id["a"], subset_state=g.subset_state)
                out["stat/%s/g%d" % (stat, gi)] = None if np.isnan(v) else float(v)
            except Exception as e:  # noqa
                out["stat/%s/g%d" % (stat, gi)] = "raises:" + type(e).__name__
        try:
            h = w.d0.compute_histogram([w.d0.id["a"]], range=[(-4.1, 5.9)], bins=[5], subset_state=g.subset_state)
            out["hist/g%d" % gi] = np.asarray(h).tolist()
        except Exception as e:  # noqa
            out["hist/g%d" % gi] = "raises:" + type(e).__name__
    if not w.plain:
        out["derived"] = np.asarray(w.d0[w.d0.id["der"]]).tolist()
    out["stat/all"] = float(np.nan_to_num(w.d0.compute_statistic("sum", w.d0.id["a"])))
    try:
        out["linked/d1.a"] = np.asarray(w.d1[w.d0.id["a"]]).tolist()
    except IncompatibleAttribute:
        out["linked/d1.a"] = "incompatible"
    return out


def fn_history(spec, rec):
    w = World(spec)
    obs_specs = {"views": spec["views"], "stats": ["mean", "maximum"], "shape": spec["shape"]}
    read_before = None
    nontrivial = False
    for k, op in enumerate(spec["ops"]):
        kind = op[0]
        tag = None
        if kind == "read":
            read_before = observe(w, obs_specs)
            continue
        if kind == "update_components":
            n = int(np.prod(w.d0.shape))
            new = (np.arange(n, dtype=float) * (op[1] % 3 - 1) + op[2]).reshape(w.d0.shape)
            cid = w.d0.id["a"] if op[3] else w.d0.id["b"]
            w.d0.update_components({cid: new})
            tag = "update_components"
        elif kind == "refresh":
            from glue.core import Data
            shape = tuple(max(1, s + (op[1] % 3) - 1) for s in w.d0.shape) if op[2] else w.d0.shape
            n = int(np.prod(shape))
            other = Data(label="d0")
            drop_spare = op[1] % 2 == 1
            for c in w.d0.main_components:
                if c.label == "spare" and drop_spare:
                    continue       # the new data lacks this component: it is removed in the middle of the refresh
                old = w.d0.get_component(c).data
                if old.dtype.kind in "US":
                    other.add_component(np.array(["x", "y", "z", "y"] * n)[:n].reshape(shape), c.label)
                else:
                    other.add_component((np.arange(n, dtype=float) + op[1]).reshape(shape), c.label)
            if not drop_spare and not any(c.label == "spare" for c in w.d0.main_components):
                other.add_component(np.arange(n, dtype=float).reshape(shape), "spare")
            if not w.plain:
                other.add_component(other.id["a"] * 2 + 1, "der")
            if shape != w.d0.shape and any(type(s).__name__ in ("MaskSubsetState", "FloodFillSubsetState", "ElementSubsetState") for g in w.groups for _, s in nodes_of(g.subset_state)):
                continue   # a mask selection is tied to the old grid; refreshing to a new shape under it is not a cache question
            w.d0.update_values_from_data(other)
            tag = "update_values_from_data" + ("/new-shape" if shape != tuple(spec["shape"]) else "")
        elif kind == "edit":
            if not w.groups:
                continue
            g = w.groups[op[1] % len(w.groups)]
            nodes = [(p, s) for p, s in nodes_of(g.subset_state)]
            p, s = nodes[op[2] % len(nodes)]
            try:
                t = mutate_state(s, op[3], op[4])
            except Exception as e:  # noqa
                if blame(e)[0] != "glue":
                    raise
                raise Mismatch("edit-raises/%s" % type(e).__name__, repr(e))
            if t is None:
                continue
            # "nested" = the edited state sits inside some composite: in its own group's tree, or - when the first group's state
            # object is also the first member of the extra group's many-way 'or' - inside that one
            inside_other = any(g2 is not g and any(s2 is s for p2, s2 in nodes_of(g2.subset_state) if p2) for g2 in w.groups)
            tag = t + ("/nested" if (p or inside_other) else "/top-level")
        elif kind == "move_group":
            if not w.groups:
                continue
            g = w.groups[op[1] % len(w.groups)]
            try:
                c = g.subset_state.center()
            except Exception:
                c = None
            if c is None:
                continue
            try:
                if isinstance(c, tuple) or (hasattr(c, "__len__") and len(c) == 2):
                    g.subset_state.move_to(c[0] + 1.0, c[1] - 0.5)
                else:
                    g.subset_state.move_to(c + 1.0)
            except Exception as e:  # noqa
                if blame(e)[0] != "glue":
                    raise
                continue    # what move_to accepts is C08's subject
            tag = "move_to:group-state"
        elif kind == "replace_state":
            if not w.groups:
                continue
            g = w.groups[op[1] % len(w.groups)]
            if tuple(w.d0.shape) != tuple(spec["shape"]):
                continue    # the spare selection was generated for the original shape
            g.subset_state = gen.build_state(spec["spare"], w.d0)
            tag = "replace-state"
        elif kind == "relink":
            new = [None, "shift", "double", "identity"][op[1] % 4]
            src = "pq"[(op[2] if len(op) > 2 else 0) % 2]
            if new == w.link_kind and (new is None or src == w.link_src):
                continue
            how = (op[3] if len(op) > 3 else 0) % 4
            w.relink(new, src, how)
            tag = "link-change" + ("" if how == 0 else ":" + ["", "set_links", "delayed", "lists"][how])
        else:
            raise ValueError(kind)
        gc.collect()
        got = observe(w, obs_specs)
        fresh = observe(World(spec, fresh_from=w), obs_specs)
        if got != fresh:
            bad = sorted(key for key in fresh if got.get(key) != fresh[key])
            reset_mod.clear_memos()
            again = observe(w, obs_specs)
            cause = "memo" if again == fresh else "other"
            obs = bad[0].split("/")[0]
            if tag.startswith("roi-field:"):
                # a region object edited directly (not through the state): one signature whatever the field / observable
                raise Mismatch("stale/%s/direct-roi-field-edit/%s" % (cause, tag.split("/")[-1]),
                               {"step": k, "op": op, "field": tag, "differs": bad[:6], "got": got[bad[0]], "fresh": fresh[bad[0]]})
            raise Mismatch("stale/%s/%s/%s" % (cause, obs, tag), {"step": k, "op": op, "differs": bad[:6],
                                                                  "got": got[bad[0]], "fresh": fresh[bad[0]]})
        if read_before is not None and read_before != fresh:
            nontrivial = True
        rec.label("mutation:" + tag.split("/")[0])
    rec.nt(nontrivial)


# --------------------------------------------------------------------------- histogram layer state (settings only, no viewer)

def fn_hist_state(spec, rec):
    from glue.core import Data, DataCollection
    from glue.viewers.histogram.state import HistogramViewerState, HistogramLayerState

    def build():
        d = Data(label="h", x=np.array(spec["x"], dtype=float), y=np.array(spec["x"], dtype=float)[::-1] * 2 + 1)
        dc = DataCollection([d])
        g = dc.new_subset_group(subset_state=d.id["x"] > spec["thr"])
        vs = HistogramViewerState()
        ls_d = HistogramLayerState(layer=d, viewer_state=vs)
        vs.layers.append(ls_d)
        ls_s = HistogramLayerState(layer=d.subsets[0], viewer_state=vs)
        vs.layers.append(ls_s)
        return d, dc, vs, [ls_d, ls_s]

    def apply(vs, d, op):
        k = op[0]
        if k == "x_att":
            vs.x_att = d.id["x"] if op[1] % 2 == 0 else d.id["y"]
        elif k == "limits":
            vs.hist_x_min = float(op[1]) - 3.0
            vs.hist_x_max = float(op[1]) + 2.0 + op[2]
        elif k == "bins":
            vs.hist_n_bin = 2 + op[1]
        elif k == "normalize":
            vs.normalize = not vs.normalize
        elif k == "cumulative":
            vs.cumulative = not vs.cumulative

    def read(layers):
        out = []
        for ls in layers:
            try:
                e, h = ls.histogram
                out.append((np.round(np.asarray(e, dtype=float), 12).tolist(), np.nan_to_num(np.round(np.asarray(h, dtype=float), 12), nan=-999.25).tolist()))
            except Exception as e:  # noqa
                out.append("raises:" + type(e).__name__)
        return out

    d, dc, vs, layers = build()
    applied = []
    first = None
    nontriv = False
    for k, op in enumerate(spec["ops"]):
        if op[0] == "read":
            first = read(layers)
            continue
        apply(vs, d, op)
        applied.append(op)
        got = read(layers)
        d2, dc2, vs2, layers2 = build()
        for o in applied:
            apply(vs2, d2, o)
        fresh = read(layers2)
        if got != fresh:
            raise Mismatch("stale-histogram-layer/after-%s%s" % (op[0], "/after-read" if first is not None else ""),
                           {"step": k, "got": got, "fresh": fresh})
        if first is not None and first != fresh:
            nontriv = True
    rec.nt(nontriv)
    for op in spec["ops"]:
        rec.label("op:" + op[0])


# --------------------------------------------------------------------------- live viewer: data updates reach what is plotted

def fn_viewer(spec, rec):
    from glue.core import Data
    from glue.core.application_base import Application
    from glue.viewers.histogram.viewer import SimpleHistogramViewer
    from glue.viewers.profile.viewer import SimpleProfileViewer

    def build(values):
        app = Application()
        if spec["viewer"] == "histogram":
            d = Data(label="v", x=np.array(values, dtype=float))
        else:
            d = Data(label="v", x=np.array(values, dtype=float).reshape(2, 3))
        app.data_collection.append(d)
        g = app.data_collection.new_subset_group(subset_state=d.id["x"] > spec["thr"])
        cls = SimpleHistogramViewer if spec["viewer"] == "histogram" else SimpleProfileViewer
        v = app.new_data_viewer(cls, data=d)
        if spec["viewer"] == "histogram":
            v.state.hist_x_min, v.state.hist_x_max, v.state.hist_n_bin = -4.1, 6.9, 4
        return app, d, v

    def read(v):
        out = []
        for ls in v.state.layers:
            try:
                if spec["viewer"] == "histogram":
                    e, h = ls.histogram
                    out.append(np.nan_to_num(np.round(np.asarray(h, dtype=float), 12), nan=-999.25).tolist())
                else:
                    ls.update_profile(update_limits=False)
                    x, y = ls.profile
                    out.append(np.round(np.nan_to_num(np.asarray(y, dtype=float)), 12).tolist())
            except Exception as e:  # noqa
                out.append("raises:" + type(e).__name__)
        return out

    values = list(spec["values"])
    app, d, v = build(values)
    first = read(v)
    changed = False
    for k, op in enumerate(spec["ops"]):
        if op[0] == "update":
            values = [float((x * (op[1] % 3 + 1) + op[2] + i) % 7 - 2) for i, x in enumerate(values)]
            new = np.array(values, dtype=float).reshape(d.shape)
            d.update_components({d.id["x"]: new})
            tag = "update_components"
        elif op[0] == "function" and spec["viewer"] == "profile":
            v.state.function = ["maximum", "minimum", "mean", "sum"][op[1] % 4]
            tag = "function"
            continue_build = True
        else:
            continue
        got = read(v)
        app2, d2, v2 = build(values)
        if spec["viewer"] == "profile":
            v2.state.function = v.state.function
        fresh = read(v2)
        if got != fresh:
            raise Mismatch("stale-%s-in-viewer/after-%s" % (spec["viewer"], tag), {"step": k, "got": got, "fresh": fresh})
        if fresh != first:
            changed = True
    rec.nt(changed)
    rec.label("viewer:" + spec["viewer"])


# --------------------------------------------------------------------------- generators

idx = st.integers(0, 7)
LEAF_KINDS = ["ineq", "range", "multirange", "roi", "mask", "slice", "catroi", "category", "floodfill", "element"]

core_op = st.one_of(
    st.tuples(st.just("read")), st.tuples(st.just("read")),
    st.tuples(st.just("update_components"), idx, idx, st.booleans()),
    st.tuples(st.just("refresh"), idx, st.booleans()),
    st.tuples(st.just("edit"), idx, idx, idx, idx), st.tuples(st.just("edit"), idx, idx, idx, idx), st.tuples(st.just("edit"), idx, idx, idx, idx),
    st.tuples(st.just("move_group"), idx),
    st.tuples(st.just("replace_state"), idx),
    st.tuples(st.just("relink"), idx, idx, idx),
).map(list)


link_op = st.one_of(st.tuples(st.just("read")), st.tuples(st.just("relink"), idx, idx, idx), st.tuples(st.just("relink"), idx, idx, idx),
                    st.tuples(st.just("relink"), st.just(0), idx, idx), st.tuples(st.just("update_components"), idx, idx, st.booleans())).map(list)


move_op = st.one_of(st.tuples(st.just("read")), st.tuples(st.just("move_group"), st.just(0)), st.tuples(st.just("move_group"), idx),
                    st.tuples(st.just("edit"), st.just(0), idx, idx, idx)).map(list)


@st.composite
def core_cases(draw, ops=None, focus="link"):
    shape = draw(st.sampled_from([[5], [5], [2, 3]]))
    n = int(np.prod(shape))
    dspec = {"label": "d0", "shape": shape, "coords": None,
             "comps": [{"name": "a", "kind": "float", "vals": [0.0] * n}, {"name": "b", "kind": "float", "vals": [0.0] * n}] +
                      ([{"name": "c", "kind": "cat", "vals": (["x", "y", "z"] * n)[:n]}] if len(shape) == 1 else [])}
    a = draw(st.lists(st.integers(-3, 5).map(float), min_size=n, max_size=n))
    kinds = [k for k in LEAF_KINDS if len(shape) == 1 or k not in ("catroi", "category")]
    groups = [draw(gen.tree_spec(dspec, max_leaves=3, kinds=kinds)) for _ in range(draw(st.integers(1, 3)))]
    if ops is not None and focus == "move":
        # move-focused histories: the first group is a region selection inside a negation / a many-way 'or' (each has a memo
        # cache of its own), evaluated, then moved
        roi = st.builds(lambda xc, yc, r: {"t": "roi", "x": ["c", 0], "y": ["c", 1], "roi": {"k": "circ", "xc": xc, "yc": yc, "r": r}},
                        st.integers(-1, 3).map(float), st.integers(0, 2).map(float), st.sampled_from([1.5, 2.5]))
        other = st.builds(lambda v: {"t": "ineq", "att": ["c", 0], "op": "gt", "val": v}, st.integers(-2, 4).map(float))
        groups[0] = draw(st.one_of(st.builds(lambda x: {"t": "not", "a": x}, roi), st.builds(lambda x, y: {"t": "multior", "states": [x, y]}, roi, other),
                                   st.builds(lambda x, y: {"t": "and", "a": {"t": "not", "a": x}, "b": y}, roi, other),
                                   st.builds(lambda x, y: {"t": "multior", "states": [y, {"t": "not", "a": x}]}, roi, other)))
    elif ops is not None:
        # link-focused histories: the first group is defined on the linked attribute alone, so that the other dataset can
        # evaluate it through the link (and no longer can once the link is gone)
        on_a = st.builds(lambda o, v: {"t": "ineq", "att": ["c", 0], "op": o, "val": v}, st.sampled_from(["gt", "le", "ge", "lt"]), st.integers(-2, 4).map(float))
        groups[0] = draw(st.one_of(on_a, st.builds(lambda x: {"t": "not", "a": x}, on_a), st.builds(lambda x, y, t: {"t": t, "a": x, "b": y}, on_a, on_a, st.sampled_from(["and", "or", "xor"])),
                                   st.builds(lambda lo: {"t": "range", "att": ["c", 0], "lo": lo, "hi": lo + 2.0}, st.integers(-2, 3).map(float))))
    spare = draw(gen.tree_spec(dspec, max_leaves=2, kinds=kinds))
    views = [draw(gen.view_spec(shape, ("single", "tuple", "bool"))) for _ in range(draw(st.integers(0, 2)))]
    return {"shape": shape, "a": a, "shared_multior": draw(st.booleans()), "listener": draw(st.booleans()), "plain": draw(st.booleans()), "link": draw(st.sampled_from([None, "shift", "double"])), "groups": groups, "spare": spare,
            "views": views, "ops": draw(st.lists(core_op if ops is None else ops, min_size=2, max_size=20 if ops is None else 8))}


hist_op = st.one_of(st.tuples(st.just("read")), st.tuples(st.just("x_att"), idx), st.tuples(st.just("limits"), idx, idx),
                    st.tuples(st.just("bins"), idx), st.tuples(st.just("normalize")), st.tuples(st.just("cumulative")),
                    st.tuples(st.just("normalize")), st.tuples(st.just("cumulative"))).map(list)
# (a constant attribute gives the viewer a zero-width range; for the constant 0 the third-party fast_histogram then crashes the process)
hist_cases = st.fixed_dictionaries({"x": st.lists(st.integers(-3, 6).map(float), min_size=3, max_size=8).filter(lambda v: len(set(v)) > 1), "thr": st.integers(-2, 4).map(float),
                                    "ops": st.lists(hist_op, min_size=2, max_size=12)})

viewer_op = st.one_of(st.tuples(st.just("update"), idx, idx), st.tuples(st.just("function"), idx)).map(list)
viewer_cases = st.fixed_dictionaries({"viewer": st.sampled_from(["histogram", "profile"]), "values": st.lists(st.integers(-2, 5).map(float), min_size=6, max_size=6).filter(lambda v: len(set(v)) > 2),
                                      "thr": st.integers(-1, 3).map(float), "ops": st.lists(viewer_op, min_size=1, max_size=4)})


def checks(tier):
    n = {"quick": (320, 480, 16, 320), "thorough": (3200, 4800, 160, 3200)}.get(tier, (10, 10, 2, 10))
    return [
        Check("core_histories", fn_history, strategy=core_cases(), examples=n[0]),
        Check("link_histories", fn_history, strategy=core_cases(ops=link_op), examples=n[3]),
        Check("move_histories", fn_history, strategy=core_cases(ops=move_op, focus="move"), examples=n[3] // 2),
        Check("histogram_layer_state", fn_hist_state, strategy=hist_cases, examples=n[1]),
        Check("live_viewer_updates", fn_viewer, strategy=viewer_cases, examples=n[2]),
    ]
