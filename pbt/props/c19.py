"""C19  Exported data files load back to the same table or image.

Round-trip oracle: write with a registered exporter, load back with load_data (auto-detected
factory), compare names, order and values with what the format can represent (fixed up front
per format below), for whole datasets and for empty/proper/full subsets; plus a session saved
by reference to the written files.
"""
import os
import shutil
import tempfile

import numpy as np
from hypothesis import strategies as st

from ..common import Check, Mismatch, blame

PROPERTY = "C19"
RULE = ("tables (1-12 rows; float with NaN, int, clearly non-numeric ASCII string columns; names [A-Za-z][A-Za-z0-9_]{0,7}, unique ignoring "
        "case, added in generated (non-sorted) order) and images (2-3-d float/int32/int64/int16 components) x every exporter of "
        "glue.config.data_exporter whose format has a reader (CSV, FITS table, VO table, HDF5, gridded FITS) x whole dataset or subset "
        "(empty, proper, full), optionally with a derived attribute and with the exporter's components= argument restricting what is "
        "written; loaded back with load_data; and a collection of loaded files saved by reference and restored. "
        "Non-trivial = proper subset, >=1 NaN and >=1 string column (tables) / >=2 components (images); distinct by spec hash.")
ASSUMPTIONS = [
    "what each format can represent is fixed up front: gridded FITS keeps numeric components only, one HDU (and one loaded dataset) each, named by the upper-cased label; FITS/VO tables and CSV keep names and text; HDF5 stores text as ASCII bytes (compared after decoding) and blanks masked integer pixels with 0",
    "zero-row tables (empty subsets of tables): the reader must not raise and whatever it returns must hold no rows; the FITS table reader returns no dataset at all for them, which is accepted",
    "IPAC and LaTeX exporters have no registered reader for what they write here and are not round-tripped",
]

TABLE_FORMATS = {"csv": ("ascii_csv_factory", "csv"), "fitstable": ("fits_factory", "fits"), "votable": ("votable_factory", "vot"),
                 "hdf5": ("hdf5_writer", "hdf5")}
IMAGE_FORMATS = {"gridfits": ("fits_writer", "fits"), "hdf5": ("hdf5_writer", "hdf5")}


def exporters():
    from glue.config import data_exporter
    return {x.function.__name__: x.function for x in data_exporter.members}


def col_array(col):
    k = col["kind"]
    if k == "float":
        return np.array(col["vals"], dtype=float)
    if k == "float32":
        return np.array(col["vals"], dtype=np.float32)
    if k == "int":
        return np.array(col["vals"], dtype=np.int64)
    return np.array(col["vals"], dtype="U8")


def eq_col(got, exp, kind):
    got = np.asarray(got)
    if got.shape != exp.shape:
        return "shape %s != %s" % (got.shape, exp.shape)
    if kind == "str":
        g = np.array([x.decode("ascii") if isinstance(x, bytes) else str(x) for x in got.ravel().tolist()]).reshape(got.shape) if got.size else got.astype(str)
        return None if np.array_equal(g.astype(str), exp.astype(str)) else "text differs: %r vs %r" % (g.tolist(), exp.tolist())
    if got.dtype.kind not in "iuf":
        return "dtype kind %s" % got.dtype.kind
    if kind == "int" and got.dtype.kind not in "iu":
        return "integer column came back as %s" % got.dtype
    g = got.astype(float)
    e = exp.astype(float)
    ok = (g == e) | (np.isnan(g) & np.isnan(e))
    return None if bool(np.all(ok)) else "values differ: %r vs %r" % (g.tolist(), e.tolist())


def fn_table(spec, rec):
    from glue.core import Data, DataCollection
    from glue.core.data_factories import load_data
    ex = exporters()
    fn_name, ext = TABLE_FORMATS[spec["format"]]
    if fn_name not in ex:
        raise Mismatch("exporter-not-registered/" + fn_name, None)
    n = spec["n"]
    d = Data(label="tab")
    for col in spec["cols"]:
        d.add_component(col_array(col), col["name"])
    cols = list(spec["cols"])
    firstnum = [c for c in spec["cols"] if c["kind"] != "str"]
    if spec.get("derived") and firstnum and not any(c["name"].lower() == "der_x" for c in spec["cols"]):
        # derived attributes are exported after the stored ones, with their computed values
        d.add_component(d.id[firstnum[0]["name"]] * 2 + 1, "der_x")
        cols.append({"name": "der_x", "kind": "float", "vals": (np.array(firstnum[0]["vals"], dtype=float) * 2 + 1).tolist()})
    kw = {}
    if spec.get("only") is not None:
        keep = sorted({k % len(cols) for k in spec["only"]})
        kw["components"] = [d.id[cols[k]["name"]] for k in keep]
        cols = [cols[k] for k in keep]
    spec = dict(spec, cols=cols)
    dc = DataCollection([d])
    mask = np.array(spec["mask"], dtype=bool) if spec["mask"] is not None else None
    obj = d
    if mask is not None:
        from glue.core.subset import MaskSubsetState
        dc.new_subset_group(subset_state=MaskSubsetState(mask, d.pixel_component_ids))
        obj = d.subsets[0]
    tmp = tempfile.mkdtemp(prefix="c19-")
    try:
        path = os.path.join(tmp, "out." + ext)
        try:
            ex[fn_name](path, obj, **kw)
        except Exception as e:  # noqa
            if blame(e)[0] != "glue" and "astropy" not in repr(type(e)):
                raise
            if mask is not None and not mask.any():
                rec.label("zero-rows:exporter-raises:" + type(e).__name__)
                return
            raise Mismatch("export-raises/%s/%s" % (spec["format"], type(e).__name__), repr(e))
        try:
            back = load_data(path)
        except Exception as e:  # noqa
            if mask is not None and not mask.any():
                # a file written for an empty subset holds the components with no rows; every reader copes with that
                raise Mismatch("reader-raises-on-empty-subset/%s/%s" % (spec["format"], type(e).__name__), repr(e)[:300])
            raise Mismatch("reader-raises/%s/%s" % (spec["format"], type(e).__name__), repr(e))
        if mask is not None and not mask.any():
            # whatever a reader makes of a table without rows, it must not contain rows: exactly the selected rows were to be written
            rows = sum(int(x.size) for x in (back if isinstance(back, list) else ([] if back is None else [back])))
            if rows:
                raise Mismatch("empty-subset-exported-with-rows/" + spec["format"], {"rows_loaded": rows})
        if mask is not None and not mask.any() and (back is None or (isinstance(back, list) and len(back) != 1)):
            rec.label("zero-rows:loaded-as-%s-datasets" % (0 if back is None else len(back)))
            return
        if isinstance(back, list):
            if len(back) != 1:
                raise Mismatch("table-loaded-as-%d-datasets/%s" % (len(back), spec["format"]), None)
            back = back[0]
        zero = mask is not None and not mask.any()
        names = [c.label for c in back.main_components]
        exp_names = [c["name"] for c in spec["cols"]]
        if zero:
            rec.label("zero-rows:loaded" + (":names-ok" if names == exp_names else ":names-differ"))
            rec.nt(False)
            return
        if sorted(names) != sorted(exp_names):
            raise Mismatch("component-names-differ/" + spec["format"], {"got": names, "expected": exp_names})
        if names != exp_names:
            raise Mismatch("component-order-differs/" + spec["format"], {"got": names, "expected": exp_names})
        for col in spec["cols"]:
            exp = col_array(col)
            if mask is not None:
                exp = exp[mask]
            why = eq_col(back[back.id[col["name"]]], exp, col["kind"])
            if why:
                raise Mismatch("values-differ/%s/%s" % (spec["format"], col["kind"]), {"column": col["name"], "why": why})
        # session saved by reference reloads the file to the same values
        if spec["by_reference"]:
            from glue.core.state import GlueSerializer, GlueUnSerializer
            dc2 = DataCollection([back])
            text = GlueSerializer(dc2, include_data=False).dumps()
            dc3 = GlueUnSerializer.loads(text).object("__main__")
            b2 = dc3[0]
            for col in spec["cols"]:
                exp = col_array(col)
                if mask is not None:
                    exp = exp[mask]
                why = eq_col(b2[b2.id[col["name"]]], exp, col["kind"])
                if why:
                    raise Mismatch("by-reference-session-differs/%s" % spec["format"], {"column": col["name"], "why": why})
    finally:
        shutil.rmtree(tmp, ignore_errors=True)
    kinds = {c["kind"] for c in spec["cols"]}
    has_nan = any(c["kind"] in ("float", "float32") and any(v != v for v in c["vals"]) for c in spec["cols"])
    rec.nt(mask is not None and mask.any() and not mask.all() and has_nan and "str" in kinds)
    rec.label("format:" + spec["format"], "subset:" + ("none" if mask is None else ("full" if mask.all() else "proper")))
    if spec["by_reference"]:
        rec.label("by-reference")
    if kw:
        rec.label("components-argument")
    if any(c["name"] == "der_x" for c in cols):
        rec.label("derived-component-exported")


def fn_image(spec, rec):
    from glue.core import Data, DataCollection
    from glue.core.data_factories import load_data
    ex = exporters()
    fn_name, ext = IMAGE_FORMATS[spec["format"]]
    shape = tuple(spec["shape"])
    n = int(np.prod(shape))
    d = Data(label="img")
    arrays = {}
    for comp in spec["comps"]:
        arr = np.array(comp["vals"][:n], dtype=comp["dtype"]).reshape(shape)
        arrays[comp["name"]] = arr
        d.add_component(arr, comp["name"])
    comps = list(spec["comps"])
    if spec.get("derived") and not any(c["name"].lower() == "der_x" for c in comps):
        d.add_component(d.id[comps[0]["name"]] * 2 + 1, "der_x")
        arrays["der_x"] = arrays[comps[0]["name"]] * 2 + 1
        comps.append({"name": "der_x", "dtype": str(arrays["der_x"].dtype)})
    kw = {}
    if spec.get("only") is not None:
        keep = sorted({k % len(comps) for k in spec["only"]})
        kw["components"] = [d.id[comps[k]["name"]] for k in keep]
        comps = [comps[k] for k in keep]
    spec = dict(spec, comps=comps)
    dc = DataCollection([d])
    mask = np.array(spec["mask"][:n], dtype=bool).reshape(shape) if spec["mask"] is not None else None
    obj = d
    if mask is not None:
        from glue.core.subset import MaskSubsetState
        dc.new_subset_group(subset_state=MaskSubsetState(mask, d.pixel_component_ids))
        obj = d.subsets[0]
    tmp = tempfile.mkdtemp(prefix="c19-")
    try:
        path = os.path.join(tmp, "img." + ext)
        try:
            ex[fn_name](path, obj, **kw)
            back = load_data(path)
        except Exception as e:  # noqa
            raise Mismatch("image-roundtrip-raises/%s/%s" % (spec["format"], type(e).__name__), repr(e))
        datasets = back if isinstance(back, list) else [back]
        found = {}
        order = []
        for ds in datasets:
            for c in ds.main_components:
                found[c.label] = np.asarray(ds[c])
                order.append(c.label)
        upper = spec["format"] == "gridfits"
        exp_order = [(c["name"].upper() if upper else c["name"]) for c in spec["comps"]]
        if sorted(order) != sorted(exp_order):
            raise Mismatch("image-component-names-differ/" + spec["format"], {"got": order, "expected": exp_order})
        if order != exp_order:
            raise Mismatch("image-component-order-differs/" + spec["format"], {"got": order, "expected": exp_order})
        for comp in spec["comps"]:
            name = comp["name"].upper() if upper else comp["name"]
            got = found[name]
            exp = arrays[comp["name"]].astype(float)
            is_int = np.dtype(comp["dtype"]).kind == "i"
            if mask is not None:
                if is_int and spec["format"] == "hdf5":
                    exp = np.where(mask, exp, 0.0)
                else:
                    exp = np.where(mask, exp, np.nan)
            if got.shape != exp.shape:
                raise Mismatch("image-shape-differs/" + spec["format"], {"component": name, "got": list(got.shape)})
            g = got.astype(float)
            ok = (g == exp) | (np.isnan(g) & np.isnan(exp))
            if not ok.all():
                raise Mismatch("image-values-differ/%s/%s%s" % (spec["format"], "int" if is_int else "float", "/subset" if mask is not None else ""),
                               {"component": name, "dtype": comp["dtype"], "got": g.tolist(), "expected": exp.tolist()})
    finally:
        shutil.rmtree(tmp, ignore_errors=True)
    rec.nt(mask is not None and mask.any() and not mask.all() and len(spec["comps"]) >= 2)
    rec.label("format:" + spec["format"], "subset:" + ("none" if mask is None else ("empty" if not mask.any() else ("full" if mask.all() else "proper"))))
    rec.label("dtypes:" + "+".join(sorted({c["dtype"] for c in spec["comps"]})))
    if kw:
        rec.label("components-argument")
    if any(c["name"] == "der_x" for c in comps):
        rec.label("derived-component-exported")


# --------------------------------------------------------------------------- generators

name_st = st.from_regex(r"[A-Za-z][A-Za-z0-9_]{0,7}", fullmatch=True)
words = ["ab", "cd", "xy", "foo", "Bar", "q_z", "left", "up"]


@st.composite
def table_cases(draw):
    n = draw(st.integers(1, 12))
    ncol = draw(st.integers(1, 4))
    names = draw(st.lists(name_st, min_size=ncol, max_size=ncol, unique_by=lambda s: s.lower()))
    cols = []
    for nm in names:
        kind = draw(st.sampled_from(["float", "float", "int", "str", "float32"]))
        if kind == "float32":      # single precision: values exactly representable, NaN included
            vals = draw(st.lists(st.one_of(st.integers(-40, 40).map(lambda k: k / 8.0), st.just(float("nan"))), min_size=n, max_size=n))
        elif kind == "float":
            vals = draw(st.lists(st.one_of(st.integers(-40, 40).map(lambda k: k / 8.0), st.floats(-1e6, 1e6, allow_nan=False), st.just(float("nan"))), min_size=n, max_size=n))
        elif kind == "int":
            vals = draw(st.lists(st.integers(-1000, 1000), min_size=n, max_size=n))
        else:
            vals = draw(st.lists(st.sampled_from(words), min_size=n, max_size=n))
        cols.append({"name": nm, "kind": kind, "vals": vals})
    m = draw(st.sampled_from(["none", "proper", "proper", "full", "empty"]))
    if m == "none":
        mask = None
    elif m == "full":
        mask = [True] * n
    elif m == "empty":
        mask = [False] * n
    else:
        mask = draw(st.lists(st.booleans(), min_size=n, max_size=n))
    only = draw(st.one_of(st.none(), st.none(), st.lists(st.integers(0, 5), min_size=1, max_size=3)))
    return {"format": draw(st.sampled_from(sorted(TABLE_FORMATS))), "n": n, "cols": cols, "mask": mask, "by_reference": draw(st.integers(0, 3)) == 0,
            "derived": draw(st.booleans()), "only": only}


@st.composite
def image_cases(draw):
    shape = draw(st.lists(st.integers(1, 4), min_size=2, max_size=3))
    n = int(np.prod(shape))
    ncomp = draw(st.integers(1, 3))
    names = draw(st.lists(name_st, min_size=ncomp, max_size=ncomp, unique_by=lambda s: s.lower()))
    comps = []
    for nm in names:
        dt = draw(st.sampled_from(["float64", "float32", "int64", "int32", "int16"]))
        if dt.startswith("float"):
            vals = draw(st.lists(st.integers(-40, 40).map(lambda k: k / 8.0), min_size=n, max_size=n))
        else:
            vals = draw(st.lists(st.integers(-100, 100), min_size=n, max_size=n))
        comps.append({"name": nm, "dtype": dt, "vals": vals})
    m = draw(st.sampled_from(["none", "proper", "proper", "full", "empty"]))
    mask = None if m == "none" else ([True] * n if m == "full" else ([False] * n if m == "empty" else draw(st.lists(st.booleans(), min_size=n, max_size=n))))
    only = draw(st.one_of(st.none(), st.none(), st.lists(st.integers(0, 5), min_size=1, max_size=3)))
    return {"format": draw(st.sampled_from(sorted(IMAGE_FORMATS))), "shape": shape, "comps": comps, "mask": mask, "derived": draw(st.booleans()), "only": only}


# --------------------------------------------------------------------------- container files holding several datasets

def observe_loaded(datasets):
    out = []
    for d in datasets:
        comps = []
        for cid in d.main_components:
            v = np.asarray(d[cid])
            comps.append([cid.label, v.dtype.kind, v.astype(float).tolist() if v.dtype.kind in "iuf" else [str(x) for x in v.ravel().tolist()]])
        out.append({"label": d.label, "shape": list(d.shape), "components": comps, "n_pixel": len(d.pixel_component_ids),
                    "n_world": len(d.world_component_ids),
                    "world": [np.asarray(d[w], dtype=float).tolist() for w in d.world_component_ids]})
    return out


def fn_container(spec, rec):
    from glue.core import DataCollection
    from glue.core.data_factories import load_data
    from glue.core.state import GlueSerializer, GlueUnSerializer
    tmp = tempfile.mkdtemp(prefix="c19c-", dir=os.environ.get("TMPDIR"))
    try:
        arrays = []
        for k, a in enumerate(spec["arrays"]):
            n = int(np.prod(a["shape"]))
            arrays.append(("a%d" % k, (np.arange(n, dtype=a["dtype"]) * a["step"] + k).reshape(a["shape"])))
        if spec["format"] == "hdf5":
            import h5py
            path = os.path.join(tmp, "container.hdf5")
            with h5py.File(path, "w") as f:
                for name, arr in arrays:
                    f[name] = arr
        else:
            from astropy.io import fits
            path = os.path.join(tmp, "container.fits")
            hdus = [fits.PrimaryHDU(arrays[0][1])] + [fits.ImageHDU(arr, name=name.upper()) for name, arr in arrays[1:]]
            fits.HDUList(hdus).writeto(path)
        try:
            loaded = load_data(path)
        except Exception as e:  # noqa
            if blame(e)[0] != "glue":
                raise
            rec.label("load-raises:" + type(e).__name__)
            return
        loaded = loaded if isinstance(loaded, list) else [loaded]
        before = observe_loaded(loaded)
        total = sorted(float(x) for d in before for c in d["components"] for x in np.ravel(c[2]))
        exp_total = sorted(float(x) for _, arr in arrays for x in arr.ravel())
        if total != exp_total:
            raise Mismatch("container-file-values-differ/%s" % spec["format"], {"loaded": before})
        dc = DataCollection(loaded)
        try:
            text = GlueSerializer(dc, include_data=False).dumps()
        except Exception as e:  # noqa
            rec.label("loud-at-save:" + type(e).__name__)
            return
        try:
            dc2 = GlueUnSerializer.loads(text).object("__main__")
        except Exception as e:  # noqa
            if blame(e)[0] != "glue":
                raise
            raise Mismatch("by-reference-session-does-not-reload/%s/%s" % (spec["format"], type(e).__name__), repr(e)[:300])
        after = observe_loaded(list(dc2))
        if before != after:
            k = next((i for i, (x, y) in enumerate(zip(before, after)) if x != y), None)
            raise Mismatch("by-reference-session-differs/container-%s" % spec["format"],
                           {"index": k, "before": before[k] if k is not None else len(before), "after": after[k] if k is not None else len(after)})
    finally:
        shutil.rmtree(tmp, ignore_errors=True)
    shapes = {tuple(a["shape"]) for a in spec["arrays"]}
    rec.nt(len(loaded) >= 2 and len({len(sh) for sh in shapes}) >= 1 and len(shapes) >= 2)
    rec.label("container:" + spec["format"], "datasets:%d" % len(loaded), "ndims:" + "+".join(sorted({str(len(sh)) for sh in shapes})))


@st.composite
def container_cases(draw):
    arrays = draw(st.lists(st.fixed_dictionaries({"shape": st.lists(st.integers(1, 4), min_size=1, max_size=3),
                                                   "dtype": st.sampled_from(["float64", "float32", "int32", "int64"]),
                                                   "step": st.sampled_from([1, 2, 3])}), min_size=1, max_size=4))
    return {"format": draw(st.sampled_from(["hdf5", "fits"])), "arrays": arrays}


def checks(tier):
    n = {"quick": (2400, 1800, 600), "thorough": (24000, 18000, 6000)}.get(tier, (10, 10, 10))
    return [
        Check("tables", fn_table, strategy=table_cases(), examples=n[0]),
        Check("images", fn_image, strategy=image_cases(), examples=n[1]),
        Check("container_files", fn_container, strategy=container_cases(), examples=n[2]),
    ]
