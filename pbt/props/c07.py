"""C07  The hub delivers each message exactly once, in order, to the right listeners.

One interpreter runs a generated *program* twice: against glue's real Hub and against
an independent simulator written from the property statement (ModelHub below).  Handlers
on both sides call back into the interpreter, which logs every handler entry/exit and
runs the handler's own generated script (re-entrancy).  The two logs must be identical.
"""
import itertools

from hypothesis import strategies as st

from ..common import Check, Mismatch

PROPERTY = "C07"
RULE = ("programs over broadcast(M0>M1>M2, N) / delay{..} (optionally left by an exception) / ignore(T){..} / subscribe / "
        "unsubscribe / unsubscribe_all with three listeners, bound-method and plain-function handlers, filters (lambdas, bound methods of the listener and of a separate stateful gate object), priorities and "
        "handler scripts that re-enter the hub (depth<=3); message classes carry distinct names or all the same name; (i) exhaustive over flat token programs of bounded length x handler-script "
        "variants, (ii) Hypothesis-generated nested programs. Oracle: independent hub simulator; full delivery logs must be equal. "
        "Non-trivial = nested delay blocks, or an invoked handler whose script re-enters the hub, or a subscription change between "
        "two broadcasts; distinct by spec hash (random) / by construction (enumeration).")
EXHAUSTIVE = {"quick": "flat token programs of length <=4 over 9 tokens x 8 handler-script variants; length <=3 x {distinct, identical class names} with general-then-specific subscriptions",
              "thorough": "flat token programs of length <=5 over 9 tokens x 8 handler-script variants"}
ASSUMPTIONS = [
    "priorities of different listeners are never equal in generated programs (the statement orders different priorities only)",
    "handlers never raise; a delay block may be left by an exception raised by the program itself",
    "ignore/delay blocks are properly nested (context managers), so 'ignored when broadcast' and 'ignored when flushed' coincide",
]

CLASSES = ["M0", "M1", "M2", "N"]
PARENT = {"M0": None, "M1": "M0", "M2": "M1", "N": None}
LISTENERS = ["A", "B", "C"]
MAX_NEST = 3
MAX_CALLS = 400


def ancestors(c):
    out = []
    while c is not None:
        out.append(c)
        c = PARENT[c]
    return out  # most derived first


class Runaway(Exception):
    pass


class ProgramExc(Exception):
    pass


# --------------------------------------------------------------------------- model

class ModelHub:
    """Written from the statement, not from hub.py."""

    def __init__(self, interp):
        self.interp = interp
        self.subs = {}        # listener -> {cls: (hid, kind, filt, prio)}   (insertion ordered)
        self.ignored = {}
        self.depth = 0
        self.queue = []

    def subscribe(self, l, cls, hid, kind, filt, prio):
        self.subs.setdefault(l, {})[cls] = (hid, kind, filt, prio)

    def unsubscribe(self, l, cls):
        if l in self.subs:
            self.subs[l].pop(cls, None)

    def unsubscribe_all(self, l):
        self.subs.pop(l, None)

    def broadcast(self, cls, tag, serial):
        if self.ignored.get(cls, 0) > 0:
            return
        if self.depth > 0:
            self.queue.append((cls, tag, serial))
            return
        self.deliver(cls, tag, serial)

    def deliver(self, cls, tag, serial):
        recips = []
        for l, table in self.subs.items():
            for c in ancestors(cls):
                if c in table:
                    hid, kind, filt, prio = table[c]
                    if accept(filt, tag):
                        recips.append((prio, l, hid))
                    break
        recips.sort(key=lambda r: -r[0])
        for prio, l, hid in recips:
            self.interp.on_call(l, hid, cls, tag, serial)

    def enter_delay(self):
        self.depth += 1

    def exit_delay(self):
        self.depth -= 1
        if self.depth == 0:
            q, self.queue = self.queue, []
            for cls, tag, serial in q:
                # an ignore block cannot be open here unless it also enclosed the broadcast (proper nesting)
                if self.ignored.get(cls, 0) > 0:
                    continue
                self.deliver(cls, tag, serial)

    def enter_ignore(self, cls):
        self.ignored[cls] = self.ignored.get(cls, 0) + 1

    def exit_ignore(self, cls):
        self.ignored[cls] -= 1


def accept(filt, tag):
    if filt == "all":
        return True
    if filt == "even":
        return tag % 2 == 0
    if filt == "none":
        return False
    if filt == "even-gate":      # bound method of a separate gate object (state: parity 0)
        return tag % 2 == 0
    if filt == "odd-self":       # bound method of the listener itself (state: parity 1)
        return tag % 2 == 1
    raise ValueError(filt)


# --------------------------------------------------------------------------- real

class RealHub:
    def __init__(self, interp):
        from glue.core.hub import Hub, HubListener
        from glue.core.message import Message
        self.interp = interp
        self.hub = Hub()
        self.msgcls = {}
        for c in CLASSES:
            base = Message if PARENT[c] is None else self.msgcls[PARENT[c]]
            # message classes are identified by the class object, not by its name: a plug-in may refine a message under the same name
            self.msgcls[c] = type("Msg" if interp.same_names else c, (base,), {})
        rev = {v: k for k, v in self.msgcls.items()}
        self.rev = rev

        def make_method(hid):
            def meth(self_, msg):
                interp.on_call(self_.name, hid, rev[type(msg)], msg.tag[0], msg.tag[1])
            meth.__name__ = "h%d" % hid
            return meth

        ns = {"h%d" % h: make_method(h) for h in range(interp.nhandlers)}

        def notify(self_, msg):
            interp.on_call(self_.name, "notify", rev[type(msg)], msg.tag[0], msg.tag[1])
        ns["notify"] = notify

        def accepts(self_, msg):
            return msg.tag[0] % 2 == self_.parity
        ns["accepts"] = accepts
        ns["parity"] = 1
        L = type("L", (HubListener,), ns)
        self.gate = type("Gate", (object,), {"accepts": accepts, "parity": 0})()   # kept alive here: the hub holds it weakly
        self.listeners = {}
        for name in LISTENERS:
            l = L()
            l.name = name
            self.listeners[name] = l
        self.funcs = {}
        self.ctx = []

    def _func(self, lname, hid):
        key = (lname, hid)
        if key not in self.funcs:
            interp, rev = self.interp, self.rev

            def f(msg):
                interp.on_call(lname, hid, rev[type(msg)], msg.tag[0], msg.tag[1])
            self.funcs[key] = f
        return self.funcs[key]

    def subscribe(self, l, cls, hid, kind, filt, prio):
        lo = self.listeners[l]
        if kind == "m":
            handler = getattr(lo, "h%d" % hid)
        else:
            handler = self._func(l, hid)
        kw = {}
        if filt == "even-gate":
            kw["filter"] = self.gate.accepts
        elif filt == "odd-self":
            kw["filter"] = lo.accepts
        elif filt != "all":
            kw["filter"] = (lambda m: m.tag[0] % 2 == 0) if filt == "even" else (lambda m: False)
        self.hub.subscribe(lo, self.msgcls[cls], handler=handler, priority=prio, **kw)

    def unsubscribe(self, l, cls):
        self.hub.unsubscribe(self.listeners[l], self.msgcls[cls])

    def unsubscribe_all(self, l):
        self.hub.unsubscribe_all(self.listeners[l])

    def broadcast(self, cls, tag, serial):
        self.hub.broadcast(self.msgcls[cls](None, tag=(tag, serial)))

    def enter_delay(self):
        cm = self.hub.delay_callbacks()
        cm.__enter__()
        self.ctx.append(cm)

    def exit_delay(self, exc=None):
        cm = self.ctx.pop()
        if exc is None:
            cm.__exit__(None, None, None)
        else:
            try:
                raise exc
            except ProgramExc as e:
                import sys
                suppressed = cm.__exit__(*sys.exc_info())
                if suppressed:
                    raise Mismatch("delay-block-swallowed-exception", None)

    def enter_ignore(self, cls):
        cm = self.hub.ignore_callbacks(self.msgcls[cls])
        cm.__enter__()
        self.ctx.append(cm)

    def exit_ignore(self, cls):
        self.ctx.pop().__exit__(None, None, None)


# --------------------------------------------------------------------------- interpreter

class Interp:
    def __init__(self, spec, backend_cls):
        self.handlers = spec["handlers"]
        self.nhandlers = len(self.handlers)
        self.log = []
        self.serial = 0
        self.depth = 0          # harness-tracked number of open delay blocks
        self.nest = 0           # handler nesting
        self.calls = 0
        self.reentered = False
        self.limit = MAX_CALLS
        self.same_names = bool(spec.get("same_names"))
        self.hub = backend_cls(self)

    def on_call(self, lname, hid, cls, tag, serial):
        self.calls += 1
        if self.calls > self.limit:
            raise Runaway()
        self.log.append(("enter", lname, hid, cls, serial, self.depth, self.nest))
        if hid != "notify" and self.nest < MAX_NEST:
            script = self.handlers[hid]
            if script:
                self.reentered = True
            self.nest += 1
            try:
                self.run(script, lname)
            finally:
                self.nest -= 1
        self.log.append(("exit", lname, hid, cls, serial))

    def run(self, actions, me=None):
        h = self.hub
        for a in actions:
            op = a[0]
            if op == "bc":
                self.serial += 1
                h.broadcast(a[1], a[2], self.serial)
            elif op == "delay":
                h.enter_delay()
                self.depth += 1
                try:
                    self.run(a[1], me)
                finally:
                    self.depth -= 1
                if len(a) > 2 and a[2]:
                    if isinstance(h, RealHub):
                        h.exit_delay(ProgramExc())
                    else:
                        h.exit_delay()
                else:
                    h.exit_delay()
            elif op == "ignore":
                h.enter_ignore(a[1])
                self.run(a[2], me)
                h.exit_ignore(a[1])
            elif op == "sub":
                l = me if a[1] == "self" and me else (a[1] if a[1] != "self" else "A")
                h.subscribe(l, a[2], a[3], a[4], a[5], a[6] * 4 + LISTENERS.index(l))
            elif op == "unsub":
                l = me if a[1] == "self" and me else (a[1] if a[1] != "self" else "A")
                h.unsubscribe(l, a[2])
            elif op == "unsuball":
                l = me if a[1] == "self" and me else (a[1] if a[1] != "self" else "A")
                h.unsubscribe_all(l)
            else:
                raise ValueError(op)


def features(prog, handlers):
    """Static non-triviality features of a program."""
    nested_delay = [False]
    sub_between = [False]

    def walk(actions, ddepth, seen_bc, pending_sub):
        for a in actions:
            if a[0] == "bc":
                if pending_sub[0] and seen_bc[0]:
                    sub_between[0] = True
                seen_bc[0] = True
            elif a[0] == "delay":
                if ddepth >= 1:
                    nested_delay[0] = True
                walk(a[1], ddepth + 1, seen_bc, pending_sub)
            elif a[0] == "ignore":
                walk(a[2], ddepth, seen_bc, pending_sub)
            elif a[0] in ("sub", "unsub", "unsuball"):
                if seen_bc[0]:
                    pending_sub[0] = True
    walk(prog, 0, [False], [False])
    return nested_delay[0], sub_between[0]


def classify(real, model):
    for ev in real:
        if ev[0] == "enter" and ev[5] > 0:
            return "delivered-while-delay-block-open"
    from collections import Counter
    cr = Counter((e[1], e[4]) for e in real if e[0] == "enter")
    cm = Counter((e[1], e[4]) for e in model if e[0] == "enter")
    if any(v > 1 for v in cr.values()) and cr != cm:
        return "delivered-more-than-once"
    if cr != cm:
        extra = set(cr) - set(cm)
        missing = set(cm) - set(cr)
        if extra and not missing:
            return "delivered-to-wrong-recipient"
        if missing and not extra:
            return "delivery-missing"
        return "recipients-differ"
    hr = [(e[1], e[2], e[4]) for e in real if e[0] == "enter"]
    hm = [(e[1], e[2], e[4]) for e in model if e[0] == "enter"]
    if sorted(hr) != sorted(hm):
        return "wrong-handler"
    return "order-or-nesting-differs"


def fn_program(spec, rec):
    setup, prog = spec["setup"], spec["prog"]
    mi = Interp(spec, ModelHub)
    mi.limit = 2000
    try:
        mi.run(setup)
        mi.run(prog)
    except Runaway:
        rec.label("discarded:model-needs->2000-deliveries")
        return
    ri = Interp(spec, RealHub)
    ri.limit = 2 * mi.calls + 50
    try:
        ri.run(setup)
        ri.run(prog)
    except Runaway:
        raise Mismatch("runaway-redelivery", {"model_log_len": len(mi.log), "real_log_head": ri.log[:12]})
    except RecursionError:
        raise Mismatch("runaway-recursion", None)
    if ri.log != mi.log:
        raise Mismatch(classify(ri.log, mi.log), {"real": ri.log[:40], "model": mi.log[:40]})
    nested, subchg = features(prog, spec["handlers"])
    rec.nt(bool(mi.log) and (nested or subchg or mi.reentered))
    if nested:
        rec.label("nested-delay")
    if subchg:
        rec.label("subscription-change-between-broadcasts")
    if mi.reentered:
        rec.label("handler-reenters-hub")
    if not mi.log:
        rec.label("nothing-delivered")


# --------------------------------------------------------------------------- generators

def action_strategy(in_handler):
    cls = st.sampled_from(CLASSES)
    lst = st.sampled_from(LISTENERS + (["self"] if in_handler else []))
    hid = st.integers(0, 3)
    leaf = st.one_of(
        st.tuples(st.just("bc"), cls, st.integers(0, 3)),
        st.tuples(st.just("bc"), cls, st.integers(0, 3)),
        st.tuples(st.just("sub"), lst, cls, hid, st.sampled_from(["m", "f"]),
                  st.sampled_from(["all", "all", "even", "none", "even-gate", "odd-self"]), st.integers(0, 3)),
        st.tuples(st.just("unsub"), lst, cls),
        st.tuples(st.just("unsuball"), lst),
    )

    def extend(children):
        body = st.lists(children, max_size=4)
        return st.one_of(
            st.tuples(st.just("delay"), body, st.booleans()),
            st.tuples(st.just("delay"), body, st.just(False)),
            st.tuples(st.just("ignore"), cls, body),
        )
    return st.recursive(leaf, extend, max_leaves=8)


def tolist(x):
    if isinstance(x, tuple):
        return [tolist(i) for i in x]
    if isinstance(x, list):
        return [tolist(i) for i in x]
    return x


@st.composite
def programs(draw):
    handlers = [draw(st.lists(action_strategy(True), max_size=3)) for _ in range(4)]
    nsub = draw(st.integers(1, 5))
    setup = []
    for _ in range(nsub):
        setup.append(["sub", draw(st.sampled_from(LISTENERS)), draw(st.sampled_from(CLASSES)), draw(st.integers(0, 3)),
                      draw(st.sampled_from(["m", "f"])), draw(st.sampled_from(["all", "all", "all", "even", "none", "even-gate", "odd-self"])),
                      draw(st.integers(0, 3))])
    prog = draw(st.lists(action_strategy(False), min_size=1, max_size=8))
    return {"handlers": tolist(handlers), "setup": setup, "prog": tolist(prog), "same_names": draw(st.booleans())}


TOKENS = ["bM1", "bM2", "bN", "D(", "I(", ")", "subC", "unsubA", "X("]
SCRIPTS = [
    [],
    [["bc", "N", 1]],
    [["delay", [["bc", "N", 1]], False]],
    [["delay", [], False]],
    [["unsub", "self", "M0"]],
    [["bc", "M2", 2]],
    [["sub", "C", "N", 1, "f", "all", 3], ["bc", "N", 0]],
    [["ignore", "N", [["bc", "N", 1]]], ["bc", "N", 3]],
]


def nest_tokens(tokens):
    """flat token sequence -> nested program; unmatched ')' is skipped, open blocks are closed at the end."""
    root = []
    stack = [root]
    kinds = []
    for t in tokens:
        if t == "bM1":
            stack[-1].append(["bc", "M1", 0])
        elif t == "bM2":
            stack[-1].append(["bc", "M2", 1])
        elif t == "bN":
            stack[-1].append(["bc", "N", 2])
        elif t in ("D(", "X("):
            blk = ["delay", [], t == "X("]
            stack[-1].append(blk)
            stack.append(blk[1])
        elif t == "I(":
            blk = ["ignore", "M1", []]
            stack[-1].append(blk)
            stack.append(blk[2])
        elif t == ")":
            if len(stack) > 1:
                stack.pop()
        elif t == "subC":
            stack[-1].append(["sub", "C", "M1", 2, "f", "all", 3])
        elif t == "unsubA":
            stack[-1].append(["unsub", "A", "M0"])
    return root


def enum_programs(tier):
    maxlen = 5 if tier == "thorough" else 4
    setup = [["sub", "A", "M0", 0, "m", "all", 1], ["sub", "B", "M1", 1, "f", "all", 2], ["sub", "B", "N", 3, "m", "all", 0]]
    # a listener subscribed to a general class first and to a refinement of it afterwards, every message class carrying the same name
    setup2 = [["sub", "A", "M0", 0, "m", "all", 1], ["sub", "A", "M1", 2, "m", "all", 1], ["sub", "B", "M1", 1, "f", "all", 2],
              ["sub", "B", "M2", 3, "m", "all", 0], ["sub", "B", "N", 3, "m", "all", 0]]
    if tier != "smoke":
        for n in range(1, 4):
            for toks in itertools.product(TOKENS, repeat=n):
                if toks[-1] == ")":
                    continue
                d = 0
                for t in toks:
                    d += 1 if t.endswith("(") else (-1 if t == ")" else 0)
                    if d < 0:
                        break
                if d < 0:
                    continue
                for same in (False, True):
                    yield {"handlers": [SCRIPTS[0], SCRIPTS[5], SCRIPTS[1], SCRIPTS[4]], "setup": setup2, "prog": nest_tokens(toks), "same_names": same}
    for n in range(1, maxlen + 1):
        for toks in itertools.product(TOKENS, repeat=n):
            if toks[-1] == ")":
                continue  # equivalent to a shorter program (open blocks are closed at the end)
            d = 0
            for t in toks:
                d += 1 if t.endswith("(") else (-1 if t == ")" else 0)
                if d < 0:
                    break
            if d < 0:
                continue  # unmatched ')'
            prog = nest_tokens(toks)
            for si, script in enumerate(SCRIPTS):
                yield {"handlers": [script, SCRIPTS[(si + 3) % len(SCRIPTS)], [], []], "setup": setup, "prog": prog}


def checks(tier):
    n = {"quick": 6000, "thorough": 60000}.get(tier, 10)
    return [
        Check("enum_programs", fn_program, enum=enum_programs, reset=False, count_distinct=False),
        Check("random_programs", fn_program, strategy=programs(), examples=n, reset=False),
    ]
