"""C01  Selections form a faithful Boolean algebra over membership masks.

Oracle: a Boolean evaluator (numpy logical ops) over *leaf masks*, where each leaf mask comes
from a fresh, separately built leaf evaluated alone.  Leaves' own correctness is not C01's
business (C04/C08/C09 own that); C01 relates composites to their parts.
"""
import numpy as np
from hypothesis import strategies as st

from .. import gen
from ..common import Check, Mismatch, canon, blame

PROPERTY = "C01"
RULE = ("data spec (1-3 dims, float/int/categorical components with NaN/inf, pixel and world attributes) x expression tree "
        "(and/or/xor/not/MultiOr, <=8 leaves) over all elementary selection kinds, realised through explicit constructors, Python "
        "operators on states, operators on Subset objects, or edit-mode programs (Replace/And/Or/Xor/AndNot/New) on a subset group; "
        "a generated evaluation schedule (sub-trees, views, a second dataset) precedes the final read. Oracle: numpy Boolean "
        "evaluation over masks of fresh leaves. Non-trivial = depth>=2, >=2 distinct leaf kinds, final mask neither empty nor full "
        "(programs: >=2 steps with a combining mode and a non-constant final mask); distinct by spec hash.")
ASSUMPTIONS = [
    "a leaf that raises or returns a non-boolean / wrongly shaped mask when evaluated alone is skipped (counted as leaf-unusable); C04/C08/C09 own leaf correctness",
    "the attribute 'parent' that edit modes attach to the incoming state is bookkeeping, not a parameter of the selection",
]


def _leaf_ok(m, shape):
    return isinstance(m, np.ndarray) and m.dtype == bool and m.shape == tuple(shape)


def snapshot(obj, depth=0, seen=None):
    """Deep, comparable picture of a state's parameters (ROIs, masks, bounds, children)."""
    from glue.core.component_id import ComponentID
    from glue.core.data import BaseData
    if depth > 8:
        return "..."
    if isinstance(obj, np.ndarray):
        return ("nd", obj.shape, str(obj.dtype), obj.tobytes())
    if isinstance(obj, (ComponentID, BaseData)):
        return ("id", id(obj))
    if isinstance(obj, (int, float, str, bool, type(None), np.generic)):
        return repr(obj)
    if isinstance(obj, (list, tuple)):
        return (type(obj).__name__,) + tuple(snapshot(o, depth + 1) for o in obj)
    if isinstance(obj, (set, frozenset)):
        return ("set",) + tuple(sorted(repr(snapshot(o, depth + 1)) for o in obj))
    if isinstance(obj, dict):
        return ("dict",) + tuple(sorted((repr(k), repr(snapshot(v, depth + 1))) for k, v in obj.items()))
    if isinstance(obj, slice):
        return ("slice", obj.start, obj.stop, obj.step)
    if hasattr(obj, "__dict__"):
        items = []
        for k, v in sorted(vars(obj).items()):
            if k in ("parent", "_mask_cache"):
                continue
            items.append((k, snapshot(v, depth + 1)))
        return (type(obj).__name__,) + tuple(items)
    return repr(type(obj))


class Builder:
    """Builds a tree bottom-up and records every intermediate state with its sub-spec."""

    def __init__(self, data, how):
        self.data = data
        self.how = how
        self.nodes = []   # (state, subspec, snapshot at creation)

    def build(self, s):
        from glue.core import subset as S
        import operator as op
        t = s["t"]
        if t in ("and", "or", "xor"):
            a = self.build(s["a"])
            b = self.build(s["b"])
            if self.how == "op":
                st_ = {"and": op.and_, "or": op.or_, "xor": op.xor}[t](a, b)
            elif self.how == "subset":
                from glue.core.subset import Subset
                sa, sb = Subset(None), Subset(None)
                sa.subset_state, sb.subset_state = a, b
                st_ = {"and": op.and_, "or": op.or_, "xor": op.xor}[t](sa, sb).subset_state
            else:
                st_ = {"and": S.AndState, "or": S.OrState, "xor": S.XorState}[t](a, b)
        elif t == "not":
            a = self.build(s["a"])
            if self.how == "subset":
                from glue.core.subset import Subset
                sa = Subset(None)
                sa.subset_state = a
                st_ = (~sa).subset_state
            else:
                st_ = ~a if self.how == "op" else S.InvertState(a)
        elif t == "multior":
            st_ = S.MultiOrState([self.build(c) for c in s["states"]])
        else:
            st_ = gen.build_state(s, self.data, "op" if self.how == "op" else "ctor")
        self.nodes.append((st_, s, snapshot(st_)))
        return st_


def leaf_masks(data, leaves, rec):
    lm = {}
    for leaf in leaves:
        key = canon(leaf)
        if key in lm:
            continue
        try:
            m = data.get_mask(gen.build_state(leaf, data))
        except Exception as e:  # noqa
            if blame(e)[0] == "glue":
                rec.label("leaf-unusable:raises:" + gen.leaf_kind(leaf))
                return None
            raise
        if not _leaf_ok(m, data.shape):
            rec.label("leaf-unusable:dtype-or-shape:" + gen.leaf_kind(leaf))
            return None
        lm[key] = np.array(m, copy=True)
    return lm


def leaves_accept_view(data, leaves, vs, rec):
    """Views of single leaves are C04's subject: a view a leaf cannot serve alone is not used on the composite."""
    view = gen.build_view(vs, data.shape)
    for leaf in leaves:
        try:
            full = data.get_mask(gen.build_state(leaf, data))
            m = data.get_mask(gen.build_state(leaf, data), view)
        except Exception as e:  # noqa
            if blame(e)[0] == "glue":
                rec.label("leaf-unusable-with-view:" + gen.leaf_kind(leaf))
                return False
            raise
        exp = full[view] if view is not None else full
        if not (isinstance(m, np.ndarray) and m.shape == exp.shape and np.array_equal(m, exp)):
            rec.label("leaf-view-disagrees(C04):" + gen.leaf_kind(leaf))
            return False
    return True


def check_mask(got, expected, sig, extra=None):
    if not isinstance(got, np.ndarray):
        raise Mismatch(sig + "/not-an-array", {"type": str(type(got))})
    if got.shape != expected.shape:
        raise Mismatch(sig + "/shape", {"got": list(got.shape), "expected": list(expected.shape), "x": extra})
    if got.dtype != bool:
        raise Mismatch(sig + "/dtype", {"dtype": str(got.dtype), "x": extra})
    if not np.array_equal(got, expected):
        raise Mismatch(sig + "/values", {"got": got.astype(int).tolist(), "expected": expected.astype(int).tolist(), "x": extra})


def fn_tree(spec, rec):
    dspec, tspec = spec["data"], spec["tree"]
    data = gen.build_data(dspec)
    leaves = gen.tree_leaves(tspec)
    lm = leaf_masks(data, leaves, rec)
    if lm is None:
        return
    lookup = lambda l: lm[canon(l)]  # noqa
    expected = gen.model_tree_mask(tspec, lookup)

    b = Builder(data, spec["how"])
    tree = b.build(tspec)

    # evaluation schedule: earlier evaluations of sub-trees / with views / on another dataset
    other = None
    for step in spec.get("schedule", []):
        node = b.nodes[step[0] % len(b.nodes)][0]
        if step[1] == "other":
            if other is None:
                other = gen.build_data(dspec)
            try:
                other.get_mask(node)
            except Exception:  # incompatible on a foreign dataset: allowed, must not disturb anything
                pass
            continue
        view = gen.build_view(step[1], data.shape)
        try:
            data.get_mask(node, view)
        except Exception as e:  # noqa
            if blame(e)[0] == "glue":
                rec.label("schedule-eval-raises")
                continue
            raise

    got = data.get_mask(tree)
    check_mask(got, expected, "composite-differs-from-parts", spec["how"])
    # again (second read is served from caches)
    check_mask(data.get_mask(tree), expected, "second-read-differs")
    vs = spec.get("view")
    if vs and leaves_accept_view(data, leaves, vs, rec):
        view = gen.build_view(vs, data.shape)
        check_mask(data.get_mask(tree, view), expected[view] if view is not None else expected, "view-of-composite-differs", vs)
    # copies (state.copy(), and pasting a subset's selection onto another subset of the dataset)
    c = tree.copy()
    check_mask(data.get_mask(c), expected, "copy-differs")
    src, dst = data.new_subset(), data.new_subset()
    src.subset_state = tree
    dst.paste(src)
    if dst.subset_state is tree:
        raise Mismatch("paste-shares-the-state-object", None)
    check_mask(np.asarray(dst.to_mask()), expected, "pasted-subset-differs")
    check_mask(np.asarray(src.to_mask()), expected, "subset-differs-after-being-pasted")
    check_mask(data.get_mask(tree), expected, "original-differs-after-copy-evaluated")
    # asking a selection which attributes it uses (viewers do, to decide whether a layer applies) is an evaluation too: it
    # returns the union of the parts' attributes and alters neither the operands nor the dataset
    pix_before = [id(c) for c in data.pixel_component_ids]
    comps_before = [id(c) for c in data.components]
    for st_, sub, snap in b.nodes:
        try:
            atts = st_.attributes
        except Exception as e:  # noqa
            if blame(e)[0] != "glue":
                raise
            rec.label("attributes-raises:" + sub["t"])
            continue
        if sub["t"] in ("and", "or", "xor", "multior") and atts is not None:
            parts = [x for x, s2, _ in b.nodes if any(s2 is c for c in ([sub.get("a"), sub.get("b")] if sub["t"] != "multior" else sub["states"]))]
            want = set()
            for x in parts:
                want |= set(x.attributes or ())
            if set(atts) != want:
                raise Mismatch("attributes-not-the-union-of-the-parts", {"node": sub["t"], "got": sorted(str(c) for c in atts), "expected": sorted(str(c) for c in want)})
    if [id(c) for c in data.pixel_component_ids] != pix_before or len(data.pixel_component_ids) != data.ndim or [id(c) for c in data.components] != comps_before:
        raise Mismatch("reading-attributes-altered-the-dataset", {"pixel_component_ids": [str(c) for c in data.pixel_component_ids], "ndim": data.ndim})
    # every operand is unaltered: parameters and own mask
    for st_, sub, snap in b.nodes:
        if snapshot(st_) != snap:
            raise Mismatch("operand-parameters-altered", {"node": sub})
        exp_sub = gen.model_tree_mask(sub, lookup)
        check_mask(data.get_mask(st_), exp_sub, "operand-mask-altered", sub["t"])
    # a fresh identical tree, never evaluated, agrees
    fresh = Builder(data, "ctor").build(tspec)
    check_mask(data.get_mask(fresh), expected, "fresh-tree-differs")

    # seen from a dataset joined by key (Data.get_mask falls back to key joins when the selection cannot be evaluated directly):
    # the joined rows carry the composite's mask, before and after evaluations that cannot succeed
    if spec.get("join"):
        from glue.core import Data
        from glue.core.exceptions import IncompatibleAttribute
        n = int(data.size)
        keys = list(range(n))[::-1] + [n, n + 1]
        lone = Data(label="lone", k=np.array(keys))
        needs_join = False
        # every elementary selection except the empty one and the slice selection is tied to its dataset (attributes, pixel
        # grid, uuid), so a composite containing one cannot be evaluated on an unrelated dataset - also not by a copy of it
        tied = any(l["t"] not in ("base", "slice") for l in leaves)
        try:
            lone.get_mask(tree)
            if tied:
                raise Mismatch("selection-evaluates-on-unrelated-dataset", {"leaves": sorted({gen.leaf_kind(l) for l in leaves})})
            rec.label("join:selection-evaluable-without-the-join")
        except IncompatibleAttribute:
            needs_join = True
        except Exception as e:  # noqa
            if blame(e)[0] != "glue":
                raise
            rec.label("join:lone-evaluation-raises:" + type(e).__name__)
        if needs_join:
            data.add_component(np.arange(n).reshape(data.shape), "key__")
            J = Data(label="J", k=np.array(keys))
            J.join_on_key(data, "k", "key__")
            exp_j = np.array([bool(expected.ravel()[k]) if k < n else False for k in keys])

            def read_j(state, sig):
                try:
                    got_j = np.asarray(J.get_mask(state))
                except IncompatibleAttribute:
                    raise Mismatch(sig + "/incompatible", None)
                check_mask(got_j, exp_j, sig)
            read_j(tree, "joined-dataset-differs")
            foreign = Data(label="foreign", z=[1, 2, 3]).id["z"] > 1
            for order in ((data, J), (J, data), (data, data)):
                for d in order:
                    try:
                        d.get_mask(foreign)
                        raise Mismatch("foreign-selection-evaluates", None)
                    except IncompatibleAttribute:
                        pass
                read_j(tree, "joined-dataset-differs-after-failed-evaluations")
                check_mask(np.asarray(data.get_mask(tree)), expected, "composite-differs-after-failed-evaluations")
            read_j(Builder(data, "ctor").build(tspec), "joined-dataset-differs/fresh-tree")
            rec.label("join:checked")

    kinds = {gen.leaf_kind(l) for l in leaves}
    depth = gen.tree_depth(tspec)
    rec.nt(depth >= 2 and len(kinds) >= 2 and expected.any() and not expected.all())
    rec.label("how:" + spec["how"], "depth:%d" % min(depth, 5))
    for k in kinds:
        rec.label("leaf:" + k)
    if any(l["t"] == "multior" for l in _nodes(tspec)):
        rec.label("has-multior")


def _nodes(s):
    out = [s]
    t = s["t"]
    if t in ("and", "or", "xor"):
        out += _nodes(s["a"]) + _nodes(s["b"])
    elif t == "not":
        out += _nodes(s["a"])
    elif t == "multior":
        for c in s["states"]:
            out += _nodes(c)
    return out


MODES = ["Replace", "And", "Or", "Xor", "AndNot", "New"]


def fn_program(spec, rec):
    from glue.core import DataCollection
    from glue.core import edit_subset_mode as E
    dspec = spec["data"]
    data = gen.build_data(dspec)
    dc = DataCollection([data])
    mode = E.EditSubsetMode()
    mode.data_collection = dc
    modes = {"Replace": E.ReplaceMode, "And": E.AndMode, "Or": E.OrMode, "Xor": E.XorMode, "AndNot": E.AndNotMode, "New": E.NewMode}
    all_leaves = []
    for m, t in spec["prog"]:
        all_leaves += gen.tree_leaves(t)
    lm = leaf_masks(data, all_leaves, rec)
    if lm is None:
        return
    lookup = lambda l: lm[canon(l)]  # noqa
    model = {}      # id(group) -> expected mask
    combining = 0
    final = None
    if spec.get("start_empty"):
        # a freshly created, still empty subset group is the edit subset before the first step
        g0 = dc.new_subset_group()
        mode.edit_subset = [g0]
        model[id(g0)] = np.zeros(data.shape, dtype=bool)
    for i, (m, t) in enumerate(spec["prog"]):
        new_mask = gen.model_tree_mask(t, lookup)
        state = Builder(data, "ctor").build(t)
        snap = snapshot(state)
        before = list(mode.edit_subset) if isinstance(mode.edit_subset, (list, tuple)) else [mode.edit_subset]
        if spec.get("override"):
            mode.update(dc, state, override_mode=modes[m])
        else:
            mode.mode = modes[m]
            mode.update(dc, state)
        after = list(mode.edit_subset)
        if not before or m == "New":
            if len(after) != 1 or after[0] in before:
                raise Mismatch("new-mode-did-not-create-one-group", {"step": i})
            model[id(after[0])] = new_mask
        else:
            if [id(g) for g in after] != [id(g) for g in before]:
                raise Mismatch("edit-subset-changed-by-combining-mode", {"step": i})
            for g in after:
                old = model[id(g)]
                if m == "Replace":
                    model[id(g)] = new_mask
                elif m == "And":
                    model[id(g)] = new_mask & old
                elif m == "Or":
                    model[id(g)] = new_mask | old
                elif m == "Xor":
                    model[id(g)] = new_mask ^ old
                elif m == "AndNot":
                    model[id(g)] = old & ~new_mask
                if m != "Replace":
                    combining += 1
        # the incoming state is an operand: unaltered
        if snapshot(state) != snap:
            raise Mismatch("edit-mode-altered-incoming-state", {"step": i, "mode": m})
        check_mask(data.get_mask(state), new_mask, "edit-mode-altered-incoming-mask", m)
        # every group (edited or not) reports its model mask, through the group and through its grouped subsets
        for g in dc.subset_groups:
            exp = model[id(g)]
            check_mask(data.get_mask(g.subset_state), exp, "group-state-differs-after-" + m, i)
            for sub in g.subsets:
                if sub.subset_state is not g.subset_state:
                    raise Mismatch("grouped-subset-does-not-share-group-state", {"step": i})
                check_mask(sub.to_mask(), exp, "grouped-subset-mask-differs-after-" + m, i)
            final = exp
        if spec.get("rotate_edit") and len(dc.subset_groups) > 1 and i % 2 == 1:
            groups = list(dc.subset_groups)
            mode.edit_subset = groups[: 1 + (i % len(groups))]
    rec.nt(len(spec["prog"]) >= 2 and combining >= 1 and final is not None and final.any() and not final.all())
    for m, _ in spec["prog"]:
        rec.label("mode:" + m)
    if len(dc.subset_groups) > 1:
        rec.label("several-groups")
    if spec.get("start_empty"):
        rec.label("starts-from-empty-group")


# --------------------------------------------------------------------------- generators

@st.composite
def tree_cases(draw, max_leaves=8):
    dspec = draw(gen.data_spec(max_dims=3, max_side=4, max_comps=3))
    tspec = draw(gen.tree_spec(dspec, max_leaves=max_leaves))
    how = draw(st.sampled_from(["ctor", "op", "subset"]))
    nsched = draw(st.integers(0, 4))
    sched = []
    for _ in range(nsched):
        if draw(st.integers(0, 5)) == 0:
            sched.append([draw(st.integers(0, 20)), "other"])
        else:
            sched.append([draw(st.integers(0, 20)), draw(gen.view_spec(dspec["shape"], kinds=("none", "ellipsis", "tuple", "short", "bool")))])
    view = draw(st.one_of(st.none(), gen.view_spec(dspec["shape"], kinds=("tuple", "short", "mixed", "bool", "fancy"))))
    return {"data": dspec, "tree": tspec, "how": how, "schedule": sched, "view": view, "join": draw(st.booleans())}


@st.composite
def program_cases(draw):
    dspec = draw(gen.data_spec(max_dims=2, max_side=4, max_comps=3))
    n = draw(st.integers(1, 6))
    prog = []
    for _ in range(n):
        prog.append([draw(st.sampled_from(MODES + ["And", "Or", "Xor", "AndNot"])), draw(gen.tree_spec(dspec, max_leaves=2))])
    return {"data": dspec, "prog": prog, "override": draw(st.booleans()), "rotate_edit": draw(st.booleans()), "start_empty": draw(st.booleans())}


def checks(tier):
    n1, n2 = {"quick": (2400, 800), "thorough": (24000, 8000)}.get(tier, (10, 10))
    return [
        Check("trees", fn_tree, strategy=tree_cases(), examples=n1),
        Check("edit_programs", fn_program, strategy=program_cases(), examples=n2),
    ]
