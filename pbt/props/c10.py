"""C10  Statistics and histograms equal their definition regardless of chunking or views.

Oracle: textbook numpy (nan-aware reducers over the selected, filtered values; own equal-width
binning with closed right edge).  The selection's *mask* is taken from a fresh evaluation by
glue (mask correctness belongs to C01/C04/C08); what is decided here is the statistic/histogram.
"""
import numpy as np
from hypothesis import strategies as st

from .. import gen
from ..common import Check, Mismatch, blame

PROPERTY = "C10"
RULE = ("data up to 4-d (dims 1-4; NaN/+-inf/negative/int values) x statistic (min, max, mean, median, sum, percentile p in [0,100]) x "
        "subset (none, empty, inequality, range, ROI on pixel attributes, slice, mask, element, composite) x axis (None, int, every tuple) "
        "x view (None / tuple of positive-step slices and ints, <= ndim) x finite x positive x n_chunk_max in 1..size+1; histograms 1-d "
        "and 2-d, 1-12 bins, ranges incl. reversed and ends equal to data values, linear/log, optional weights and subset; plus "
        "IndexedData statistics with subset and axis. Oracle: textbook numpy. Non-trivial = (subset with proper bounding box, or chunked "
        "run, or stepped/offset view) and result not all-NaN; histograms: >=2 occupied bins or a sample on a range end; distinct by spec hash.")
ASSUMPTIONS = [
    "finite=False with no subset and positive=False uses plain (NaN-propagating) reducers in the code while the statement says NaN-aware: that corner is generated without NaN so neither reading is asserted",
    "degenerate histogram ranges (a == b) and log ranges with a <= 0 are outside the domain",
    "a sample within 1e-9*(|a|+|b|) of an interior bin edge may be counted on either side (checked through cumulative counts)",
    "rtol 1e-9 for mean/sum/percentile/median",
]

STATS = ["minimum", "maximum", "mean", "median", "sum", "percentile"]


def oracle_stat(stat, vals, keep, axis, pct):
    import warnings
    fn = {"minimum": np.nanmin, "maximum": np.nanmax, "mean": np.nanmean, "median": np.nanmedian, "sum": None, "percentile": None}[stat]
    with warnings.catch_warnings(), np.errstate(all="ignore"):
        warnings.simplefilter("ignore")
        if axis is None:
            sel = vals[keep]
            sel = sel[~np.isnan(sel)]
            if sel.size == 0:
                return np.nan
            if stat == "sum":
                return np.sum(sel)
            if stat == "percentile":
                return np.percentile(sel, pct)
            return fn(sel)
        arr = np.where(keep, vals, np.nan)
        ax = tuple(axis) if isinstance(axis, (list, tuple)) else axis
        if isinstance(ax, tuple) and len(ax) == 0:
            return arr
        if stat == "sum":
            res = np.nansum(arr, axis=ax)
            cnt = np.sum(~np.isnan(arr), axis=ax)
            return np.where(cnt == 0, np.nan, res)
        if stat == "percentile":
            return np.nanpercentile(arr, pct, axis=ax)
        return fn(arr, axis=ax)


def close(a, b):
    a, b = np.asarray(a, dtype=float), np.asarray(b, dtype=float)
    if a.shape != b.shape:
        return False
    with np.errstate(all="ignore"):
        return bool(np.all(np.isclose(a, b, rtol=1e-9, atol=1e-12, equal_nan=True)))


def fn_stat(spec, rec):
    d = gen.build_data(spec["data"])
    cid = gen.ref_cid(d, spec["cid"])
    vals = gen.ref_values(spec["data"], spec["cid"]).astype(float)
    vs = spec["view"]
    view = gen.build_view(vs, d.shape)
    sub = spec["subset"]
    if sub is not None:
        try:
            mask = np.asarray(d.get_mask(gen.build_state(sub, d)))
        except Exception as e:  # noqa
            if blame(e)[0] == "glue":
                rec.label("subset-mask-raises")
                return
            raise
        if mask.shape != d.shape:
            rec.label("subset-mask-wrong-shape")
            return
    else:
        mask = np.ones(d.shape, dtype=bool)
    finite, positive = spec["finite"], spec["positive"]
    compact_slice_path = sub is not None and sub["t"] == "slice" and view is None
    if not finite and not positive and (sub is None or compact_slice_path) and np.isnan(vals).any():
        rec.label("skipped:plain-reducer-corner-with-nan")
        return
    v = vals if view is None else vals[view]
    m = mask if view is None else mask[view]
    if v.size == 0 or v.ndim == 0:
        rec.label("skipped:zero-size-or-0-d-view")
        return
    axis = spec["axis"]
    if axis is not None:
        nd_v = v.ndim
        if isinstance(axis, list):
            axis = [a for a in axis if a < nd_v]
            axis = tuple(sorted(set(axis)))
        elif axis >= nd_v:
            axis = None
    keep = m.copy()
    with np.errstate(all="ignore"):
        if finite:
            keep &= np.isfinite(v)
        if positive:
            keep &= v > 0
    expected = oracle_stat(spec["stat"], v, keep, axis, spec["pct"])
    kw = {}
    if spec["stat"] == "percentile":
        kw["percentile"] = spec["pct"]
    state = gen.build_state(sub, d) if sub is not None else None
    ncm = spec["n_chunk_max"]
    try:
        got = d.compute_statistic(spec["stat"], cid, subset_state=state, axis=axis, finite=finite, positive=positive,
                                  view=view, n_chunk_max=ncm, **kw)
    except Exception as e:  # noqa
        if blame(e)[0] != "glue":
            raise
        raise Mismatch(classify_exc(e, spec, axis, v, vs), repr(e))
    ok = close(got, expected)
    if (not ok and sub is not None and sub["t"] == "slice" and view is None and axis is not None
            and np.shape(got) != np.shape(expected) and not m.any()):
        ok = np.ndim(got) == 0 and bool(np.isnan(got))
        rec.label("slice-subset-empty-scalar-nan-accepted")
    elif (not ok and sub is not None and sub["t"] == "slice" and view is None and axis is not None
            and np.shape(got) != np.shape(expected) and m.any()):
        # a top-level SliceSubsetState is evaluated on its own compact sub-array (Data.compute_statistic uses
        # SliceSubsetState.to_array); no shape is documented for that path, so the compact result is accepted
        # when it equals the expected result restricted to the slice's bounding box
        box = [slice(*x) for x in sub["slices"]]
        box += [slice(None)] * (m.ndim - len(box))
        ax = (axis,) if isinstance(axis, int) else tuple(axis)
        rs = tuple(b for k, b in enumerate(box) if k not in ax)
        ok = close(got, np.asarray(expected)[rs])
        rec.label("slice-subset-compact-shape-accepted")
    if not ok:
        raise Mismatch(classify_val(spec, axis, got, expected, vs, v),
                       {"got": np.asarray(got).tolist(), "expected": np.asarray(expected).tolist(), "axis": axis})
    chunked = (view is None and isinstance(axis, tuple) and 0 < len(axis) == d.ndim - 1 and d.size > ncm)
    proper_bbox = False
    if sub is not None and m.any():
        idx = np.where(m)
        proper_bbox = any((i.max() - i.min() + 1) < s for i, s in zip(idx, m.shape))
    stepped = vs[0] == "tuple" and any(it[0] == "s" and ((it[3] or 1) > 1 or (it[1] or 0) > 0) for it in vs[1])
    allnan = bool(np.all(np.isnan(np.asarray(expected, dtype=float))))
    rec.nt((proper_bbox or chunked or stepped) and not allnan)
    rec.label("stat:" + spec["stat"], "axis:" + ("none" if axis is None else ("int" if isinstance(axis, int) else "tuple%d" % len(axis))),
              "subset:" + ("none" if sub is None else sub["t"]), "view:" + vs[0])
    if chunked:
        rec.label("chunked")
    if sub is not None and not m.any():
        rec.label("empty-selection")


def view_has_int(vs):
    return vs[0] == "tuple" and any(it[0] == "i" for it in vs[1])


def view_has_step(vs):
    return vs[0] == "tuple" and any(it[0] == "s" and (it[3] or 1) != 1 for it in vs[1])


def classify_exc(e, spec, axis, v, vs):
    sub = spec["subset"]
    base = "stat-raises/%s" % type(e).__name__
    if sub is not None and axis is not None:
        ax = (axis,) if isinstance(axis, int) else tuple(axis)
        if view_has_int(vs):
            return base + "/subset+axis+integer-in-view"
        if view_has_step(vs):
            return base + "/subset+axis+stepped-view"
        if len(ax) == v.ndim:
            return base + "/subset+axis-covering-all-dims"
        return base + "/subset+axis"
    return base + "/other"


def classify_val(spec, axis, got, expected, vs, v):
    sub = spec["subset"]
    if np.shape(got) != np.shape(expected):
        if sub is not None and sub["t"] == "slice" and axis is not None:
            return "stat-shape/slice-subset+axis-not-padded"
        if sub is not None and axis is not None:
            return "stat-shape/subset+axis"
        return "stat-shape/other"
    if sub is not None and axis is not None:
        return "stat-value/subset+axis"
    if sub is not None:
        return "stat-value/subset"
    return "stat-value/" + spec["stat"]


# --------------------------------------------------------------------------- histograms

def hist_oracle_1d(x, w, a, b, n, eps):
    """returns (lower, upper) cumulative bounds per interior edge, total, exact counts if unambiguous"""
    width = (b - a) / n
    edges = a + width * np.arange(n + 1)
    edges[-1] = b
    w = np.ones_like(x) if w is None else w
    total = float(np.sum(w))
    lows, ups = [], []
    for k in range(1, n):
        e = edges[k]
        below = x < e - eps
        amb = (~below) & (x <= e + eps)
        base = float(np.sum(w[below]))
        lows.append(base + float(np.sum(np.minimum(w[amb], 0))))
        ups.append(base + float(np.sum(np.maximum(w[amb], 0))))
    return np.array(lows), np.array(ups), total


def fn_hist(spec, rec):
    d = gen.build_data(spec["data"])
    refs = spec["cids"]
    cids = [gen.ref_cid(d, r) for r in refs]
    xs = [gen.ref_values(spec["data"], r).astype(float) for r in refs]
    sub = spec["subset"]
    if sub is not None:
        try:
            mask = np.asarray(d.get_mask(gen.build_state(sub, d)))
        except Exception as e:  # noqa
            if blame(e)[0] == "glue":
                rec.label("subset-mask-raises")
                return
            raise
    else:
        mask = np.ones(d.shape, dtype=bool)
    wref = spec.get("weights")
    w = gen.ref_values(spec["data"], wref).astype(float) if wref is not None else None
    ranges = [tuple(r) for r in spec["ranges"]]
    bins = list(spec["bins"])
    logs = list(spec["log"])
    state = gen.build_state(sub, d) if sub is not None else None
    got = d.compute_histogram(cids, weights=gen.ref_cid(d, wref) if wref is not None else None, range=ranges, bins=bins,
                              log=logs if any(logs) else None, subset_state=state)
    got = np.asarray(got, dtype=float)
    if got.shape != tuple(bins):
        raise Mismatch("hist-shape", {"got": list(got.shape), "bins": bins})
    keep = mask.copy()
    tx = []
    lims = []
    with np.errstate(all="ignore"):
        for x, (lo, hi), lg in zip(xs, ranges, logs):
            lo, hi = min(lo, hi), max(lo, hi)
            keep &= (x >= lo) & (x <= hi) & ~np.isnan(x)
            if lg:
                tx.append(np.log10(x))
                lims.append((np.log10(lo), np.log10(hi)))
            else:
                tx.append(x)
                lims.append((lo, hi))
    if w is not None:
        # weights that are NaN would poison a bin; the statement speaks of weight sums of selected finite values
        if np.isnan(w[keep]).any() or np.isinf(w[keep]).any():
            rec.label("skipped:non-finite-weights")
            return
    sel = [t[keep] for t in tx]
    ws = w[keep] if w is not None else None
    total = float(np.sum(ws)) if ws is not None else float(keep.sum())
    if not np.isclose(np.sum(got), total, rtol=1e-9, atol=1e-9):
        raise Mismatch("hist-total/%dd%s" % (len(bins), "/log" if any(logs) else ""), {"got_total": float(np.sum(got)), "expected_total": total,
                                                                                       "got": got.tolist()})
    occupied = 0
    if len(bins) == 1:
        a, b = lims[0]
        eps = 1e-9 * (abs(a) + abs(b))
        lows, ups, _ = hist_oracle_1d(sel[0], ws, a, b, bins[0], eps)
        cg = np.cumsum(got)[:-1]
        tol = 1e-9 * (abs(total) + 1)
        if np.any(cg < lows - tol) or np.any(cg > ups + tol):
            raise Mismatch("hist-bins/1d" + ("/log" if logs[0] else ""), {"got": got.tolist(), "cum_low": lows.tolist(), "cum_up": ups.tolist()})
        occupied = int(np.count_nonzero(got))
    else:
        amb = False
        idxs = []
        for t, (a, b), n in zip(sel, lims, bins):
            eps = 1e-9 * (abs(a) + abs(b))
            width = (b - a) / n
            pos = (t - a) / width
            k = np.floor(pos)
            if np.any(np.abs(pos - np.round(pos)) * width <= eps) and np.any((np.round(pos) > 0) & (np.round(pos) < n) & (np.abs(pos - np.round(pos)) * width <= eps)):
                amb = True
            k = np.clip(k, 0, n - 1).astype(int)
            idxs.append(k)
        if not amb:
            exp = np.zeros(bins)
            np.add.at(exp, tuple(idxs), ws if ws is not None else 1.0)
            if not np.allclose(got, exp, rtol=1e-9, atol=1e-9):
                raise Mismatch("hist-bins/2d", {"got": got.tolist(), "expected": exp.tolist()})
        else:
            rec.label("2d-ambiguous-edge:total-only")
        occupied = int(np.count_nonzero(got))
    on_end = any(bool(np.any((t == a) | (t == b))) for t, (a, b) in zip(sel, lims))
    rec.nt(occupied >= 2 or (on_end and occupied >= 1))
    rec.label("hist:%dd" % len(bins), "log" if any(logs) else "linear", "weights" if w is not None else "unweighted",
              "subset:" + ("none" if sub is None else sub["t"]))
    if on_end:
        rec.label("sample-on-range-end")
    if any(r[0] > r[1] for r in ranges):
        rec.label("reversed-range")


# --------------------------------------------------------------------------- IndexedData statistics with subset and axis

def fn_indexed_stat(spec, rec):
    from glue.core.data_derived import IndexedData
    parent = gen.build_data(spec["data"])
    shape = parent.shape
    neg = list(spec.get("neg") or []) + [False] * len(shape)
    ind = tuple(None if i is None else (i % s - s if n else i % s) for i, s, n in zip(spec["indices"], shape, neg))
    idata = IndexedData(parent, ind)
    pv = tuple(slice(None) if i is None else i for i in ind)
    vals = gen.ref_values(spec["data"], ["c", 0]).astype(float)[pv]
    sub = spec["subset"]
    if sub is not None:
        try:
            pm = np.asarray(parent.get_mask(gen.build_state(sub, parent)))[pv]
        except Exception as e:  # noqa
            if blame(e)[0] == "glue":
                rec.label("subset-mask-raises")
                return
            raise
    else:
        pm = np.ones(vals.shape, dtype=bool)
    axis = spec["axis"]
    if axis is not None:
        axis = axis % vals.ndim
    keep = pm & np.isfinite(vals)
    expected = oracle_stat(spec["stat"], vals, keep, axis, 50)
    kw = {"percentile": 50} if spec["stat"] == "percentile" else {}
    state = gen.build_state(sub, parent) if sub is not None else None
    try:
        got = idata.compute_statistic(spec["stat"], idata.main_components[0], subset_state=state, axis=axis, **kw)
    except Exception as e:  # noqa
        if blame(e)[0] != "glue":
            raise
        tag = "indexed-stat-raises/%s/%s" % (type(e).__name__, "subset+axis" if (sub is not None and axis is not None) else "other")
        raise Mismatch(tag, repr(e))
    if not close(got, expected):
        tag = "indexed-stat-value/%s" % ("subset+axis" if (sub is not None and axis is not None) else ("subset" if sub is not None else "plain"))
        raise Mismatch(tag, {"got": np.asarray(got).tolist(), "expected": np.asarray(expected).tolist()})
    rec.nt(sub is not None and bool(pm.any()) and not bool(pm.all()))
    rec.label("axis:" + ("none" if axis is None else "int"), "subset:" + ("none" if sub is None else sub["t"]))


# --------------------------------------------------------------------------- what the viewers plot: profile and histogram layer states

def fn_layer_products(spec, rec):
    from glue.core import Data, DataCollection
    shape = tuple(spec["shape"])
    n = int(np.prod(shape))
    vals = np.array(spec["vals"][:n] + [0.0] * max(0, n - len(spec["vals"])), dtype=float).reshape(shape)
    d = Data(label="cube", v=vals)
    dc = DataCollection([d])
    thr = spec["thr"]
    dc.new_subset_group(subset_state=d.id["v"] > thr)
    sel = vals > thr
    if spec["what"] == "profile":
        from glue.viewers.profile.state import ProfileViewerState, ProfileLayerState
        vs = ProfileViewerState()
        ld = ProfileLayerState(layer=d, viewer_state=vs)
        vs.layers.append(ld)
        lsub = ProfileLayerState(layer=d.subsets[0], viewer_state=vs)
        vs.layers.append(lsub)
        for k, step in enumerate(spec["steps"]):
            ax = step["axis"] % len(shape)
            vs.x_att = d.pixel_component_ids[ax]
            vs.function = step["function"]
            axes = tuple(i for i in range(len(shape)) if i != ax)
            for name, layer, keep in (("data", ld, np.isfinite(vals)), ("subset", lsub, sel & np.isfinite(vals))):
                layer.update_profile(update_limits=False)
                x, y = layer.profile
                exp = oracle_stat(step["function"], vals, keep, axes if axes else (), 50)
                exp = np.asarray(exp, dtype=float)
                if np.all(np.isnan(exp)):
                    if len(y) != 0:
                        raise Mismatch("profile/all-nan-not-empty/" + name, {"step": k, "got": np.asarray(y).tolist()})
                    continue
                if not close(np.asarray(y, dtype=float), exp):
                    raise Mismatch("profile/values/%s/%s" % (name, step["function"]), {"step": k, "axis": ax, "got": np.asarray(y).tolist(), "expected": exp.tolist()})
                if not np.array_equal(np.asarray(x, dtype=float), np.arange(shape[ax], dtype=float)):
                    raise Mismatch("profile/x-values/" + name, {"step": k, "got": np.asarray(x).tolist()})
        rec.nt(len(shape) >= 2 and sel.any() and not sel.all())
    else:
        from glue.viewers.histogram.state import HistogramViewerState, HistogramLayerState
        vs = HistogramViewerState()
        ld = HistogramLayerState(layer=d, viewer_state=vs)
        vs.layers.append(ld)
        lsub = HistogramLayerState(layer=d.subsets[0], viewer_state=vs)
        vs.layers.append(lsub)
        for k, step in enumerate(spec["steps"]):
            lo, hi, nb = step["lo"], step["lo"] + step["width"], step["bins"]
            vs.hist_x_min, vs.hist_x_max, vs.hist_n_bin = lo, hi, nb
            vs.cumulative, vs.normalize = step["cumulative"], step["normalize"]
            for name, layer, keep in (("data", ld, np.isfinite(vals)), ("subset", lsub, sel & np.isfinite(vals))):
                edges, h = layer.histogram
                x = vals[keep & (vals >= lo) & (vals <= hi)]
                eps = 1e-9 * (abs(lo) + abs(hi))
                e = np.linspace(lo, hi, nb + 1)
                if len(x) and np.min(np.abs(x[:, None] - e[None, 1:-1]), initial=np.inf) <= eps:
                    rec.label("histogram:sample-on-interior-edge:skipped")
                    continue
                counts = np.histogram(x, bins=nb, range=(lo, hi))[0].astype(float)
                dx = (hi - lo) / nb
                with np.errstate(all="ignore"):
                    if step["cumulative"]:
                        exp = counts.cumsum()
                        if step["normalize"]:
                            exp = exp / exp.max()
                    elif step["normalize"]:
                        exp = counts / (counts.sum() * dx)
                    else:
                        exp = counts
                if not np.allclose(np.asarray(edges, dtype=float), e, rtol=1e-12, atol=1e-12):
                    raise Mismatch("layer-histogram/edges/" + name, {"step": k, "got": np.asarray(edges).tolist(), "expected": e.tolist()})
                if not close(np.asarray(h, dtype=float), exp):
                    raise Mismatch("layer-histogram/values/%s%s%s" % (name, "/cumulative" if step["cumulative"] else "", "/normalize" if step["normalize"] else ""),
                                   {"step": k, "got": np.asarray(h).tolist(), "expected": exp.tolist()})
        rec.nt(sel.any() and not sel.all() and len(spec["steps"]) >= 2)
    rec.label("what:" + spec["what"])


@st.composite
def product_cases(draw):
    what = draw(st.sampled_from(["profile", "histogram"]))
    shape = draw(gen.shapes(1, 3, 4, 2)) if what == "profile" else draw(gen.shapes(1, 2, 5, 2))
    n = int(np.prod(shape))
    vals = draw(st.lists(st.one_of(gen.dyadic, st.just(float("nan"))), min_size=n, max_size=n))
    if len({v for v in vals if v == v}) < 2:
        vals[0], vals[-1] = -1.5, 2.25      # a constant attribute gives the histogram viewer a zero-width default range
    steps = []
    for _ in range(draw(st.integers(1, 4))):
        if what == "profile":
            steps.append({"axis": draw(st.integers(0, 2)), "function": draw(st.sampled_from(["maximum", "minimum", "mean", "median", "sum"]))})
        else:
            step = {"lo": draw(st.sampled_from([-4.1, -2.05, 0.3, -0.7])), "width": draw(st.sampled_from([1.3, 4.2, 8.4])), "bins": draw(st.integers(1, 8)),
                    "cumulative": draw(st.booleans()), "normalize": draw(st.booleans())}
            if steps and draw(st.booleans()):
                # same range and bins as the step before: only the presentation (cumulative / normalize) changes
                step.update({k: steps[-1][k] for k in ("lo", "width", "bins")})
            steps.append(step)
    return {"what": what, "shape": shape, "vals": vals, "thr": draw(gen.dyadic), "steps": steps}


# --------------------------------------------------------------------------- generators

SUBSET_KINDS = ["ineq", "range", "mask", "slice", "element", "base", "roi", "multirange"]


@st.composite
def tuple_view(draw, shape):
    if draw(st.integers(0, 3)) == 0:
        return ["none"]
    k = draw(st.integers(1, len(shape)))
    items = []
    for i in range(k):
        if draw(st.integers(0, 3)) == 0:
            items.append(["i", draw(st.integers(0, shape[i] - 1))])
        else:
            items.append(draw(gen.slice_spec(shape[i])))
    return ["tuple", items]


@st.composite
def pixel_roi_leaf(draw, dspec):
    nd = len(dspec["shape"])
    x = draw(st.integers(0, nd - 1))
    y = draw(st.integers(0, nd - 1))
    return {"t": "roi", "x": ["p", x], "y": ["p", y], "roi": draw(gen.roi2d_spec(kinds=("rect", "circ", "poly", "xrange"), rotated=False))}


@st.composite
def stat_cases(draw):
    dspec = draw(gen.data_spec(max_dims=4, max_side=4, kinds=("float", "float", "int"), max_comps=2, coords=False))
    shape = dspec["shape"]
    nd = len(shape)
    size = int(np.prod(shape))
    which = draw(st.integers(0, 5))
    if which == 0:
        sub = None
    elif which == 1:
        sub = draw(pixel_roi_leaf(dspec))
    else:
        sub = draw(gen.tree_spec(dspec, max_leaves=2, kinds=SUBSET_KINDS, multior=False))
    ax_kind = draw(st.integers(0, 3))
    if ax_kind == 0:
        axis = None
    elif ax_kind == 1:
        axis = draw(st.integers(0, nd - 1))
    else:
        axis = draw(st.lists(st.integers(0, nd - 1), min_size=0, max_size=nd, unique=True))
    cid = draw(st.sampled_from([["c", i] for i in range(len(dspec["comps"]))] + [["p", draw(st.integers(0, nd - 1))]]))
    return {"data": dspec, "cid": cid, "stat": draw(st.sampled_from(STATS)), "pct": draw(st.sampled_from([0, 25, 50, 50.5, 90, 100])),
            "subset": sub, "axis": axis, "view": draw(tuple_view(shape)), "finite": draw(st.sampled_from([True, True, False])),
            "positive": draw(st.sampled_from([False, False, True])), "n_chunk_max": draw(st.integers(1, size + 1))}


@st.composite
def hist_cases(draw):
    dspec = draw(gen.data_spec(max_dims=3, max_side=4, kinds=("float", "float", "int"), min_comps=2, max_comps=3, coords=False))
    ncomp = len(dspec["comps"])
    nd = draw(st.sampled_from([1, 1, 2]))
    cids = [["c", draw(st.integers(0, ncomp - 1))] for _ in range(nd)]
    ranges, logs = [], []
    for _ in range(nd):
        lg = draw(st.integers(0, 4)) == 0
        if lg:
            lo = draw(st.sampled_from([0.25, 0.5, 1.0, 0.1]))
            hi = lo * draw(st.sampled_from([2.0, 4.0, 16.0, 10.0]))
        else:
            lo = draw(st.one_of(gen.dyadic, st.sampled_from([-4.1, -0.3, 0.7])))
            hi = lo + draw(st.sampled_from([0.5, 1.0, 2.0, 3.0, 8.0, 0.7]))
        if draw(st.integers(0, 5)) == 0:
            lo, hi = hi, lo
        ranges.append([lo, hi])
        logs.append(lg)
    bins = [draw(st.integers(1, 12)) for _ in range(nd)]
    sub = draw(st.one_of(st.none(), gen.tree_spec(dspec, max_leaves=2, kinds=SUBSET_KINDS, multior=False)))
    weights = draw(st.one_of(st.none(), st.just(["c", draw(st.integers(0, ncomp - 1))])))
    return {"data": dspec, "cids": cids, "ranges": ranges, "bins": bins, "log": logs, "subset": sub, "weights": weights}


@st.composite
def indexed_stat_cases(draw):
    dspec = draw(gen.data_spec(min_dims=2, max_dims=4, max_side=3, max_comps=1, coords=False, force_kinds=("float",)))
    nd = len(dspec["shape"])
    ind = [draw(st.one_of(st.none(), st.integers(0, 5))) for _ in range(nd)]
    if all(i is None for i in ind):
        ind[draw(st.integers(0, nd - 1))] = draw(st.integers(0, 5))
    if all(i is not None for i in ind):
        ind[draw(st.integers(0, nd - 1))] = None
    sub = draw(st.one_of(st.none(), gen.tree_spec(dspec, max_leaves=2, kinds=["ineq", "range", "mask", "element", "multirange"], multior=False)))
    return {"data": dspec, "indices": ind, "neg": draw(st.lists(st.booleans(), min_size=nd, max_size=nd)), "subset": sub,
            "axis": draw(st.one_of(st.none(), st.integers(0, 3))), "stat": draw(st.sampled_from(["minimum", "maximum", "mean", "sum", "median"]))}


# --------------------------------------------------------------------------- small exhaustive: infinities and NaN in every position

def inf_blocks(tier):
    import itertools
    alphabet = [1.0, -2.0, float("inf"), float("-inf"), float("nan")]
    n = 4 if tier == "thorough" else 3
    for shape in ([n], [2, 2]):
        size = int(np.prod(shape))
        for vals in itertools.product(alphabet, repeat=size):
            yield {"k": "inf", "vals": list(vals), "shape": shape}


def fn_inf(spec, rec):
    """every array over {1, -2, inf, -inf, NaN} of a small size x every selection mask x every statistic x axis x
    finite / positive: the NaN-aware definition holds whatever mixture of infinities a group contains"""
    import itertools
    from glue.core import Data
    from glue.core.subset import MaskSubsetState
    vals = np.array(spec["vals"], dtype=float).reshape(spec["shape"])
    d = Data(label="inf", v=vals)
    ev = nt = 0
    axes = [None] + list(range(vals.ndim))
    masks = [None] + [np.array(m, dtype=bool).reshape(vals.shape) for m in itertools.product([False, True], repeat=vals.size) if any(m)]
    for mask in masks:
        state = None if mask is None else MaskSubsetState(mask, d.pixel_component_ids)
        for stat in ("sum", "mean", "minimum", "maximum"):
            for finite, positive in ((True, False), (False, False), (False, True), (True, True)):
                if mask is None and not finite and not positive and np.isnan(vals).any():
                    continue        # the plain-reducer corner (see `statistics`)
                keep = np.ones(vals.shape, dtype=bool) if mask is None else mask.copy()
                with np.errstate(all="ignore"):
                    if finite:
                        keep &= np.isfinite(vals)
                    if positive:
                        keep &= vals > 0
                for axis in axes:
                    expected = oracle_stat(stat, vals, keep, axis, 50)
                    try:
                        got = d.compute_statistic(stat, d.id["v"], subset_state=state, axis=axis, finite=finite, positive=positive)
                    except Exception as e:  # noqa
                        if blame(e)[0] != "glue":
                            raise
                        raise Mismatch("inf-stat-raises/%s/%s" % (stat, type(e).__name__), repr(e)[:200], dict(spec, k="inf"))
                    ev += 1
                    if not close(got, expected):
                        raise Mismatch("inf-stat-value/%s/%s" % (stat, "finite" if finite else "with-infinities"),
                                       {"stat": stat, "axis": axis, "finite": finite, "positive": positive, "mask": None if mask is None else mask.astype(int).tolist(),
                                        "got": np.asarray(got).tolist(), "expected": np.asarray(expected).tolist()}, dict(spec, k="inf"))
                    nt += bool(np.isinf(vals[keep]).any()) if keep.any() else 0
    rec.bulk(ev, nt)


# --------------------------------------------------------------------------- log histograms over many orders of magnitude

def fn_log_hist(spec, rec):
    """1-d log-space histograms whose range ends are data values, at magnitudes from 1e-12 to 1e12: every sample in
    [lo, hi] is counted exactly once (the totals equal the number of in-range selected values), the samples equal to the
    limits included."""
    from glue.core import Data
    vals = np.array([m * 10.0 ** e for m, e in spec["vals"]], dtype=float)
    d = Data(label="wide", x=vals, w=np.arange(len(vals), dtype=float) + 1)
    lo, hi = float(vals[spec["lo"] % len(vals)]), float(vals[spec["hi"] % len(vals)])
    if lo == hi:
        rec.label("skipped:zero-width-range")
        return
    if spec["reverse"]:
        rng = (max(lo, hi), min(lo, hi))
    else:
        rng = (min(lo, hi), max(lo, hi))
    a, b = min(lo, hi), max(lo, hi)
    sel = vals >= spec["thr"] * a if spec["subset"] else np.ones(len(vals), dtype=bool)
    state = (d.id["x"] >= spec["thr"] * a) if spec["subset"] else None
    inside = sel & (vals >= a) & (vals <= b)
    nb = spec["bins"]
    for weights in (None, d.id["w"]):
        try:
            got = np.asarray(d.compute_histogram([d.id["x"]], range=[rng], bins=[nb], log=[True], subset_state=state, weights=weights), dtype=float)
        except Exception as e:  # noqa
            if blame(e)[0] != "glue":
                raise
            raise Mismatch("log-hist-raises/%s" % type(e).__name__, repr(e)[:300])
        total = float(inside.sum()) if weights is None else float(np.asarray(d["w"])[inside].sum())
        if got.shape != (nb,) or abs(got.sum() - total) > 1e-9 * max(1.0, total):
            raise Mismatch("log-hist-total-differs" + ("/weights" if weights is not None else ""),
                           {"range": list(rng), "bins": nb, "got": got.tolist(), "expected_total": total, "values": vals.tolist()})
        edge_hi = float((inside & (vals == b)).sum()) if weights is None else float(np.asarray(d["w"])[inside & (vals == b)].sum())
        last = got[-1]          # (a reversed range is sorted by compute_histogram; the bins are not reversed)
        if last + 1e-9 < edge_hi:
            raise Mismatch("log-hist-drops-samples-on-the-upper-limit", {"range": list(rng), "got": got.tolist()})
    big = max(abs(np.log10(a)), abs(np.log10(b)))
    rec.nt(bool(inside.sum() >= 2) and big >= 4)
    rec.label("log-hist:decades:%s" % ("<4" if big < 4 else ("4-8" if big < 8 else ">=8")), "reverse" if spec["reverse"] else "forward")


log_hist_cases = st.fixed_dictionaries({
    "vals": st.lists(st.tuples(st.sampled_from([1.0, 1.3, 2.0, 2.5, 3.7, 5.0, 6.1, 7.9, 9.9]), st.integers(-12, 12)).map(list), min_size=2, max_size=8),
    "lo": st.integers(0, 7), "hi": st.integers(0, 7), "bins": st.integers(1, 5), "reverse": st.booleans(),
    "subset": st.booleans(), "thr": st.sampled_from([0.5, 1.0, 2.0])})


# --------------------------------------------------------------------------- statistics of a selection defined on a pixel-aligned dataset

def fn_aligned_stat(spec, rec):
    """compute_statistic on dataset B with a selection defined on dataset A whose pixel axes are linked one-to-one to B's in a
    generated order (the slice selection takes a shortcut through SliceSubsetState.to_array here)."""
    from .c04 import build_aligned
    w = build_aligned(spec["world"])
    b, exp_mask, kind = w["b"], w["expected_full"], w["kind"]
    vals = np.asarray(b[b.id["v"]], dtype=float)
    axes = [None] if kind == "slice" else [None] + list(range(vals.ndim)) + ([tuple(range(vals.ndim))] if vals.ndim > 1 else [])
    for stat in spec["stats"]:
        for axis in axes:
            expected = oracle_stat(stat, vals, exp_mask & np.isfinite(vals), axis, 50)
            try:
                got = b.compute_statistic(stat, b.id["v"], subset_state=w["make"](), axis=axis, **({"percentile": 50} if stat == "percentile" else {}))
            except Exception as e:  # noqa
                if blame(e)[0] != "glue":
                    raise
                raise Mismatch("aligned-stat-raises/%s/%s" % (kind, type(e).__name__), repr(e)[:300])
            if not close(got, expected):
                raise Mismatch("aligned-stat-value/%s/%s" % (kind, "permuted" if w["perm"] != sorted(w["perm"]) else "same-order"),
                               {"stat": stat, "axis": axis, "got": np.asarray(got).tolist(), "expected": np.asarray(expected).tolist(), "perm": w["perm"]})
    rec.nt(bool(exp_mask.any() and not exp_mask.all()) and w["perm"] != sorted(w["perm"]))
    rec.label("aligned:" + kind, "ndim:%d" % vals.ndim, "permuted" if w["perm"] != sorted(w["perm"]) else "same-order")


@st.composite
def aligned_stat_cases(draw):
    from .c04 import aligned_cases
    return {"world": draw(aligned_cases()), "stats": draw(st.lists(st.sampled_from(["sum", "mean", "minimum", "maximum", "median"]), min_size=1, max_size=2, unique=True))}


def checks(tier):
    n = {"quick": (8000, 3000, 1000, 600, 1200, 2000), "thorough": (40000, 15000, 6000, 4000, 8000, 12000)}.get(tier, (10, 10, 10, 10, 10, 10))
    return [
        Check("statistics", fn_stat, strategy=stat_cases(), examples=n[0]),
        Check("histograms", fn_hist, strategy=hist_cases(), examples=n[1]),
        Check("indexed_statistics", fn_indexed_stat, strategy=indexed_stat_cases(), examples=n[2]),
        Check("viewer_layer_products", fn_layer_products, strategy=product_cases(), examples=n[3]),
        Check("aligned_statistics", fn_aligned_stat, strategy=aligned_stat_cases(), examples=n[4]),
        Check("log_histograms_wide", fn_log_hist, strategy=log_hist_cases, examples=n[5]),
        Check("infinities_exhaustive", fn_inf, enum=inf_blocks, count_distinct=False, reset=False),
    ]
