"""C15  World coordinates, their links and inverses agree with the coordinate object.

Oracle: own matrix algebra (world = M.[x, y, (z), 1] on the pixel grid, xy order reversed for
numpy axes; pixel = M^-1 . world).  Entries are dyadic so the forward direction is exact.
"""
import numpy as np
from hypothesis import strategies as st

from .. import gen
from ..common import Check, Mismatch, blame

PROPERTY = "C15"
RULE = ("AffineCoordinates of 1-3 dims with dyadic entries (diagonal, symmetric coupling, dense, block 2+1, permuted axes, triangular/"
        "shear, chain coupling) and IdentityCoordinates x shapes (sides 1-4) x every view form. Checks: data[world_i, view] == M.pixel "
        "grid [view]; each automatically created pixel->world / world->pixel CoordinateComponentLink computes the same as the "
        "transformation; world_to_pixel(pixel_to_world(p)) ~ p; a second dataset linked to the world attributes reads the same values. "
        "Non-trivial = correlation matrix not symmetric, or neither diagonal nor full; distinct by spec hash.")
ASSUMPTIONS = [
    "pixel->world comparisons are exact (dyadic matrix entries, small integer pixel grid); world->pixel uses rtol 1e-9 / atol 1e-9",
    "astropy.wcs.WCS coordinate objects are out of scope (the oracle would be astropy itself)",
]

KINDS = ["diagonal", "symcoupled", "dense", "block", "permuted", "triangular", "chain", "identity"]


@st.composite
def matrix_spec(draw, nd):
    kind = draw(st.sampled_from(KINDS))
    if kind == "identity":
        return {"kind": "identity"}
    val = st.sampled_from([1.0, 2.0, 0.5, -1.0, 3.0, -0.5])
    m = [[0.0] * (nd + 1) for _ in range(nd + 1)]
    m[nd][nd] = 1.0
    for i in range(nd):
        m[i][nd] = float(draw(st.integers(-3, 3)))
    if kind == "diagonal" or nd == 1:
        for i in range(nd):
            m[i][i] = draw(val)
    elif kind == "symcoupled":
        for i in range(nd):
            m[i][i] = draw(val)
        a, b = draw(st.sampled_from([1.0, 2.0])), draw(st.sampled_from([1.0, -1.0, 0.5]))
        m[0][0], m[0][1], m[1][0], m[1][1] = a, b, -b, a
    elif kind == "dense":
        # unit upper x unit lower triangular product: dense, exactly invertible
        for i in range(nd):
            for j in range(nd):
                m[i][j] = float(draw(st.integers(-2, 2)))
        for i in range(nd):
            m[i][i] = float(draw(st.sampled_from([3.0, 5.0, -5.0])))   # diagonally dominant enough for these sizes? checked below
    elif kind == "block":
        for i in range(nd):
            m[i][i] = draw(val)
        if nd == 3:
            i, j = draw(st.sampled_from([(0, 1), (1, 2), (0, 2)]))
            m[i][j], m[j][i] = draw(val), draw(val)
            m[i][i], m[j][j] = 2.0, 3.0
        else:
            m[0][1], m[1][0] = 1.0, 1.0
            m[0][0], m[1][1] = 2.0, 3.0
    elif kind == "permuted":
        perm = draw(st.permutations(range(nd)))
        for i in range(nd):
            m[i][perm[i]] = draw(val)
    elif kind == "triangular":
        upper = draw(st.booleans())
        for i in range(nd):
            m[i][i] = draw(val)
            for j in range(nd):
                if (j > i) == upper and j != i and draw(st.booleans()):
                    m[i][j] = draw(val)
    elif kind == "chain":
        for i in range(nd):
            m[i][i] = draw(val)
            if i + 1 < nd:
                m[i][i + 1] = draw(val)
    M = np.array(m)
    if abs(np.linalg.det(M)) < 1e-6:
        for i in range(nd):
            m[i][i] += 4.0
    tiny = draw(st.sampled_from([None, None, None, 0, 1, 2]))
    if tiny is not None and tiny < nd:
        # one world axis in very small units (e.g. a wavelength in metres): its coefficients are scaled by 2**-40 (exact)
        for j in range(nd + 1):
            m[tiny][j] = m[tiny][j] * 2.0 ** -40
    return {"kind": "affine", "matrix": m, "pattern": kind, "tiny_row": tiny if tiny is not None and tiny < nd else None}


def world_grid(cspec, shape):
    nd = len(shape)
    grid = np.meshgrid(*[np.arange(s, dtype=float) for s in shape], indexing="ij")
    if cspec["kind"] == "identity":
        return grid
    M = np.array(cspec["matrix"], dtype=float)
    out = []
    for i in range(nd):          # numpy axis i <-> matrix row nd-1-i ; column c <-> numpy axis nd-1-c
        row = nd - 1 - i
        w = np.zeros(shape) + M[row][nd]
        for c in range(nd):
            w = w + M[row][c] * grid[nd - 1 - c]
        out.append(w)
    return out


def fn_coords(spec, rec):
    from glue.core import Data, DataCollection
    from glue.core.component_link import ComponentLink
    shape = tuple(spec["shape"])
    nd = len(shape)
    cspec = spec["coords"]
    coords = gen.build_coords(cspec, nd)
    d = Data(label="w", a=np.arange(int(np.prod(shape)), dtype=float).reshape(shape), coords=coords)
    exp_world = world_grid(cspec, shape)
    grid = np.meshgrid(*[np.arange(s, dtype=float) for s in shape], indexing="ij")
    vs = spec["view"]
    view = gen.build_view(vs, shape)
    pat = cspec.get("pattern", "identity")

    def guard(f, what):
        try:
            return f()
        except Exception as e:  # noqa
            if blame(e)[0] != "glue":
                raise
            raise Mismatch("%s-raises/%s/%s" % (what, type(e).__name__, pat), repr(e))

    # 1. world attributes equal the transformation of the pixel grid, whole and under the view
    for i, wid in enumerate(d.world_component_ids):
        full = guard(lambda: np.asarray(d[wid]), "world-attribute")
        if full.shape != shape or not np.array_equal(full, exp_world[i]):
            raise Mismatch("world-attribute-wrong/%s" % pat, {"axis": i, "got": np.asarray(full).tolist(), "expected": exp_world[i].tolist()})
        got = guard(lambda: np.asarray(d[wid, view]), "world-attribute-view")
        exp = exp_world[i] if view is None else exp_world[i][view]
        if got.shape != exp.shape or not np.array_equal(got, exp):
            raise Mismatch("world-attribute-view-wrong/%s/%s" % (pat, vs[0]), {"axis": i, "got": got.tolist(), "expected": exp.tolist()})
    # 2. automatically created coordinate links
    for link in d.coordinate_links:
        to = link.get_to_id()
        if to in d.world_component_ids:
            i = d.world_component_ids.index(to)
            exp_full, tol = exp_world[i], 0.0
            tag = "pixel->world"
        else:
            i = d.pixel_component_ids.index(to)
            exp_full, tol = grid[i], 1e-9
            tag = "world->pixel"
        for v, vtag in ((None, "full"), (view, "view:" + vs[0])):
            got = guard(lambda: np.asarray(link.compute(d, v)), "coordinate-link")
            exp = exp_full if v is None else exp_full[v]
            if got.shape != exp.shape or not np.allclose(got, exp, rtol=tol, atol=tol * (2.0 ** -40 if (cspec.get("tiny_row") is not None and tol == 0.0) else 1.0)):
                raise Mismatch("coordinate-link-wrong/%s/%s" % (tag, pat), {"axis": i, "view": vtag, "got": got.tolist(), "expected": exp.tolist()})
    # 2b. a refresh from a dataset with another transformation: the world attributes and the coordinate links follow the new one
    if spec.get("refresh") is not None and not spec.get("_refreshed"):
        other = Data(label="w", a=np.arange(int(np.prod(shape)), dtype=float).reshape(shape) + 1, coords=gen.build_coords(spec["refresh"], nd))
        guard(lambda: d.update_values_from_data(other), "refresh")
        rcs = spec["refresh"]
        exp2 = world_grid(rcs, shape)
        pat2 = rcs.get("pattern", "identity")
        if len(d.world_component_ids) != nd:
            raise Mismatch("world-attributes-not-one-per-dimension-after-refresh", {"n": len(d.world_component_ids), "ndim": nd})
        for i, wid in enumerate(d.world_component_ids):
            full = guard(lambda: np.asarray(d[wid]), "world-attribute-after-refresh")
            if full.shape != shape or not np.array_equal(full, exp2[i]):
                raise Mismatch("world-attribute-wrong-after-refresh/%s->%s" % (pat, pat2), {"axis": i, "got": full.tolist(), "expected": exp2[i].tolist()})
        for link in d.coordinate_links:
            to = link.get_to_id()
            if to in d.world_component_ids:
                i = d.world_component_ids.index(to)
                exp_full, tol = exp2[i], 0.0
            else:
                i = d.pixel_component_ids.index(to)
                exp_full, tol = grid[i], 1e-9
            got = guard(lambda: np.asarray(link.compute(d, None)), "coordinate-link-after-refresh")
            if got.shape != exp_full.shape or not np.allclose(got, exp_full, rtol=tol, atol=tol * (2.0 ** -40 if (rcs.get("tiny_row") is not None and tol == 0.0) else 1.0)):
                raise Mismatch("coordinate-link-wrong-after-refresh/%s->%s" % (pat, pat2), {"axis": i, "got": got.tolist(), "expected": exp_full.tolist()})
        rec.label("refreshed-with-other-coordinates", "pattern:" + pat, "ndim:%d" % nd)
        rec.nt(pat != pat2)
        return
    # 3. the coordinate object itself: world_to_pixel undoes pixel_to_world
    if nd == 1:
        w = coords.pixel_to_world_values(grid[0])
        p = coords.world_to_pixel_values(w)
        back = [np.asarray(p)]
    else:
        w = coords.pixel_to_world_values(*grid[::-1])
        back = list(coords.world_to_pixel_values(*w))[::-1]
    for i in range(nd):
        if not np.allclose(back[i], grid[i], rtol=1e-9, atol=1e-9):
            raise Mismatch("world_to_pixel-does-not-undo-pixel_to_world/%s" % pat, {"axis": i})
    # 4. a second dataset linked to the world attributes reads the same values
    d2 = Data(label="other", q=np.arange(3, dtype=float))
    dc = DataCollection([d, d2])
    from glue.core.component_id import ComponentID
    targets = []
    for i, wid in enumerate(d.world_component_ids):
        t = ComponentID("lw%d" % i, parent=d2)
        dc.add_link(ComponentLink([wid], t))
        targets.append(t)
    for i, t in enumerate(targets):
        got = guard(lambda: np.asarray(d[t, view]), "linked-world")
        exp = exp_world[i] if view is None else exp_world[i][view]
        if got.shape != exp.shape or not np.array_equal(got, exp):
            raise Mismatch("linked-world-attribute-wrong/%s" % pat, {"axis": i})
    if cspec["kind"] == "affine":
        corr = np.array(cspec["matrix"])[:-1, :-1] != 0
        sym = np.array_equal(corr, corr.T)
        diag = np.array_equal(corr, np.eye(nd, dtype=bool))
        rec.nt((not sym) or (not diag and not corr.all()))
    rec.label("pattern:" + pat, "ndim:%d" % nd, "view:" + vs[0], "tiny-scale-axis" if cspec.get("tiny_row") is not None else "ordinary-scales")


@st.composite
def cases(draw):
    shape = draw(gen.shapes(1, 3, 4, 1))
    return {"shape": shape, "coords": draw(matrix_spec(len(shape))), "view": draw(gen.view_spec(shape)),
            "refresh": draw(st.one_of(st.none(), st.none(), matrix_spec(len(shape))))}


def checks(tier):
    n = {"quick": 8000, "thorough": 80000}.get(tier, 10)
    return [Check("affine_coordinates", fn_coords, strategy=cases(), examples=n)]
