"""Shared strategies (plain-JSON specs) and builders (spec -> live glue objects).

Hypothesis never generates glue objects: it generates specs; build_*() are pure
functions of a spec.  See DESIGN.md sections 2.4 and 3.
"""
import math
import operator

import numpy as np
from hypothesis import strategies as st

NAN = float("nan")
INF = float("inf")

# --------------------------------------------------------------------------- values

dyadic = st.integers(-16, 16).map(lambda k: k / 4.0)


def float_values(n, special=True):
    base = st.lists(dyadic, min_size=n, max_size=n)
    if not special:
        return base

    @st.composite
    def with_special(draw):
        vals = draw(base)
        k = draw(st.integers(0, 3))
        if k == 0 and n > 0:
            for _ in range(draw(st.integers(1, max(1, n // 3)))):
                i = draw(st.integers(0, n - 1))
                vals[i] = draw(st.sampled_from([NAN, NAN, INF, -INF]))
        return vals
    return with_special()


def int_values(n):
    return st.lists(st.integers(-5, 5), min_size=n, max_size=n)


CAT_ALPHABET = ["a", "b", "c", "d", "bb"]


def cat_values(n):
    return st.lists(st.sampled_from(CAT_ALPHABET), min_size=n, max_size=n)


# --------------------------------------------------------------------------- data specs

@st.composite
def shapes(draw, min_dims=1, max_dims=3, max_side=4, min_side=1):
    nd = draw(st.integers(min_dims, max_dims))
    return draw(st.lists(st.integers(min_side, max_side), min_size=nd, max_size=nd))


@st.composite
def affine_matrix(draw, nd, kind=None):
    """(nd+1)x(nd+1) matrix with dyadic entries, invertible; kinds: diagonal, coupled(symmetric), dense."""
    kind = kind or draw(st.sampled_from(["diagonal", "diagonal", "symcoupled"]))
    m = [[0.0] * (nd + 1) for _ in range(nd + 1)]
    m[nd][nd] = 1.0
    scales = draw(st.lists(st.sampled_from([0.5, 1.0, 2.0, -1.0, 4.0]), min_size=nd, max_size=nd))
    offs = draw(st.lists(st.integers(-4, 4).map(float), min_size=nd, max_size=nd))
    for i in range(nd):
        m[i][i] = scales[i]
        m[i][nd] = offs[i]
    if kind == "symcoupled" and nd >= 2:
        # couple axes 0 and 1 with a rotation-like exact matrix [[a, b], [-b, a]] (det = a^2+b^2 != 0)
        a = draw(st.sampled_from([1.0, 2.0, 0.5]))
        b = draw(st.sampled_from([1.0, -1.0, 0.5, 2.0]))
        m[0][0], m[0][1], m[1][0], m[1][1] = a, b, -b, a
    return m


@st.composite
def data_spec(draw, min_dims=1, max_dims=3, max_side=4, kinds=("float", "int", "cat"), min_comps=1, max_comps=3,
              coords=True, special=True, label="d", shape=None, force_kinds=()):
    shape = shape or draw(shapes(min_dims, max_dims, max_side))
    n = int(np.prod(shape))
    comps = []
    want = list(force_kinds)
    ncomp = max(draw(st.integers(min_comps, max_comps)), len(want))
    names = ["a", "b", "c", "e", "f"]
    for i in range(ncomp):
        kind = want[i] if i < len(want) else draw(st.sampled_from(list(kinds)))
        if kind == "float":
            vals = draw(float_values(n, special))
        elif kind == "int":
            vals = draw(int_values(n))
        else:
            vals = draw(cat_values(n))
        comps.append({"name": names[i], "kind": kind, "vals": vals})
    spec = {"label": label, "shape": shape, "comps": comps, "coords": None}
    if coords:
        c = draw(st.sampled_from(["none", "none", "identity", "affine"]))
        if c == "identity":
            spec["coords"] = {"kind": "identity"}
        elif c == "affine":
            spec["coords"] = {"kind": "affine", "matrix": draw(affine_matrix(len(shape)))}
    return spec


def build_coords(cspec, ndim):
    if cspec is None:
        return None
    from glue.core.coordinates import IdentityCoordinates, AffineCoordinates
    if cspec["kind"] == "identity":
        return IdentityCoordinates(n_dim=ndim)
    if cspec["kind"] == "affine":
        kw = {}
        if cspec.get("units"):
            kw["units"] = cspec["units"]
        if cspec.get("labels"):
            kw["labels"] = cspec["labels"]
        return AffineCoordinates(np.array(cspec["matrix"], dtype=float), **kw)
    raise ValueError(cspec)


def comp_array(c, shape):
    if c["kind"] == "float":
        return np.array(c["vals"], dtype=float).reshape(shape)
    if c["kind"] == "int":
        return np.array(c["vals"], dtype=np.int64).reshape(shape)
    if c["kind"] == "cat":
        return np.array(c["vals"], dtype="U4").reshape(shape)
    raise ValueError(c["kind"])


def build_data(spec):
    from glue.core import Data
    shape = tuple(spec["shape"])
    d = Data(label=spec.get("label", "d"))
    coords = build_coords(spec.get("coords"), len(shape))
    if coords is not None:
        d.coords = coords
    for c in spec["comps"]:
        if c["kind"] == "cat" and c.get("categories"):
            # categories given explicitly, in an order of their own (possibly with an unused one)
            from glue.core.component import CategoricalComponent
            d.add_component(CategoricalComponent(comp_array(c, shape), categories=np.array(c["categories"])), c["name"])
        else:
            d.add_component(comp_array(c, shape), c["name"])
    return d


def ref_cid(data, ref):
    """attribute reference -> ComponentID:  ['c', i] main component i, ['p', axis], ['w', axis]."""
    k, i = ref
    if k == "c":
        return data.main_components[i]
    if k == "p":
        return data.pixel_component_ids[i]
    if k == "w":
        return data.world_component_ids[i]
    raise ValueError(ref)


def ref_values(dspec, ref):
    """Oracle-side values of an attribute reference (numeric: float array; categorical: label array), full shape."""
    shape = tuple(dspec["shape"])
    k, i = ref
    if k == "c":
        return comp_array(dspec["comps"][i], shape)
    grid = np.meshgrid(*[np.arange(s, dtype=float) for s in shape], indexing="ij") if shape else []
    if k == "p":
        return grid[i]
    if k == "w":
        c = dspec["coords"]
        nd = len(shape)
        if c["kind"] == "identity":
            return grid[i]
        m = np.array(c["matrix"], dtype=float)
        # glue: world axis i (numpy order) <-> matrix row nd-1-i ; matrix columns in xy order (reversed numpy axes)
        row = nd - 1 - i
        out = np.zeros(shape) + m[row][nd]
        for col in range(nd):
            out = out + m[row][col] * grid[nd - 1 - col]
        return out
    raise ValueError(ref)


def numeric_refs(dspec, pixel=True, world=True):
    out = [["c", i] for i, c in enumerate(dspec["comps"]) if c["kind"] in ("float", "int")]
    nd = len(dspec["shape"])
    if pixel:
        out += [["p", i] for i in range(nd)]
    if world and dspec.get("coords"):
        out += [["w", i] for i in range(nd)]
    return out


def cat_refs(dspec):
    return [["c", i] for i, c in enumerate(dspec["comps"]) if c["kind"] == "cat"]


def categories_of(dspec, ref):
    return sorted(set(dspec["comps"][ref[1]]["vals"]))


# --------------------------------------------------------------------------- views

@st.composite
def slice_spec(draw, n, allow_none=True):
    a = draw(st.one_of(st.none(), st.integers(-n - 1, n + 1))) if allow_none else draw(st.integers(0, n))
    b = draw(st.one_of(st.none(), st.integers(-n - 1, n + 1)))
    c = draw(st.sampled_from([None, 1, 1, 2, 3]))
    return ["s", a, b, c]


@st.composite
def view_spec(draw, shape, kinds=("none", "ellipsis", "tuple", "short", "mixed", "fancy", "bool", "single")):
    nd = len(shape)
    kind = draw(st.sampled_from(list(kinds)))
    if kind == "none":
        return ["none"]
    if kind == "ellipsis":
        return ["ellipsis"]
    if kind == "single":
        if nd == 1:
            return ["item", draw(slice_spec(shape[0]))]
        return ["tuple", [draw(slice_spec(shape[0]))]]
    if kind == "tuple":
        return ["tuple", [draw(slice_spec(shape[i])) for i in range(nd)]]
    if kind == "short":
        k = draw(st.integers(1, nd))
        return ["tuple", [draw(slice_spec(shape[i])) for i in range(k)]]
    if kind == "mixed":
        k = draw(st.integers(1, nd))
        items = []
        has_slice = False
        for i in range(k):
            if draw(st.booleans()):
                items.append(["i", draw(st.integers(-shape[i], shape[i] - 1))])
            else:
                items.append(draw(slice_spec(shape[i])))
                has_slice = True
        if not has_slice and k == nd:
            # keep at least one slice or an implicit trailing axis: otherwise the result is 0-d ("all-integer" class)
            items[draw(st.integers(0, k - 1))] = draw(slice_spec(shape[0]))
        return ["tuple", items]
    if kind == "fancy":
        # one integer index array per axis, all of one (possibly n-d) shape
        ishape = draw(st.sampled_from([[1], [2], [3], [4], [2, 2], [1, 3], [2, 1, 2], [2, 2, 2]]))
        m = int(np.prod(ishape))
        arrs = []
        for i in range(nd):
            flat = draw(st.lists(st.integers(-shape[i], shape[i] - 1), min_size=m, max_size=m))
            arrs.append(np.array(flat).reshape(ishape).tolist())
        return ["fancy", arrs]
    if kind == "bool":
        n = int(np.prod(shape))
        return ["bool", draw(st.lists(st.booleans(), min_size=n, max_size=n))]
    raise ValueError(kind)


def build_view(vs, shape=None):
    k = vs[0]
    if k == "none":
        return None
    if k == "ellipsis":
        return Ellipsis
    if k == "item":
        return _item(vs[1])
    if k == "tuple":
        return tuple(_item(i) for i in vs[1])
    if k == "fancy":
        return tuple(np.array(a, dtype=int) for a in vs[1])
    if k == "bool":
        return np.array(vs[1], dtype=bool).reshape(shape)
    raise ValueError(k)


def _item(it):
    if it[0] == "i":
        return it[1]
    return slice(it[1], it[2], it[3])


def apply_view(arr, view):
    return arr if view is None else arr[view]


def view_is_proper(vs, shape):
    if vs[0] in ("none", "ellipsis"):
        return False
    v = build_view(vs, shape)
    sub = np.zeros(shape)[v]
    return 0 < sub.size < int(np.prod(shape)) or vs[0] in ("fancy",)


# --------------------------------------------------------------------------- ROI specs

ANGLE_DELTAS = [0.0, 1e-12, -1e-12, 1e-10, -1e-10, 1e-8, -1e-8, 1e-3, -1e-3]


@st.composite
def angle(draw):
    if draw(st.booleans()):
        k = draw(st.integers(-4, 6))
        return k * math.pi / 2 + draw(st.sampled_from(ANGLE_DELTAS))
    return draw(st.floats(-7.0, 7.0, allow_nan=False))


coord = st.one_of(dyadic, st.floats(-4, 4, allow_nan=False, width=32))
size = st.one_of(st.sampled_from([0.25, 0.5, 1.0, 1.5, 2.0, 3.0]), st.floats(0.015625, 5.0, allow_nan=False, width=32))


@st.composite
def polygon_vertices(draw, closed=None):
    """Simple polygon, star-shaped about (cx, cy): sorted angles x radii => possibly concave, never self-intersecting."""
    n = draw(st.integers(3, 7))
    cx, cy = draw(coord), draw(coord)
    # distinct angles, sorted; keep gaps < pi so the centre is strictly inside and the polygon simple
    base = sorted(draw(st.lists(st.floats(0.02, 0.98), min_size=n, max_size=n, unique=True)))
    angs = [2 * math.pi * (i + b * 0.9) / n for i, b in enumerate(base)]
    radii = draw(st.lists(st.sampled_from([0.5, 1.0, 1.5, 2.0, 3.0]), min_size=n, max_size=n))
    vx = [cx + r * math.cos(a) for a, r in zip(angs, radii)]
    vy = [cy + r * math.sin(a) for a, r in zip(angs, radii)]
    closed = draw(st.booleans()) if closed is None else closed
    if closed:
        vx.append(vx[0])
        vy.append(vy[0])
    return vx, vy


@st.composite
def roi2d_spec(draw, kinds=("rect", "circ", "ellipse", "poly", "xrange", "yrange", "annulus"), rotated=True):
    k = draw(st.sampled_from(list(kinds)))
    if k == "rect":
        x0, y0 = draw(coord), draw(coord)
        w, h = draw(size), draw(size)
        s = {"k": "rect", "xmin": x0, "xmax": x0 + w, "ymin": y0, "ymax": y0 + h}
        s["theta"] = draw(angle()) if rotated and draw(st.booleans()) else 0.0
        return s
    if k == "circ":
        return {"k": "circ", "xc": draw(coord), "yc": draw(coord), "r": draw(size)}
    if k == "ellipse":
        s = {"k": "ellipse", "xc": draw(coord), "yc": draw(coord), "rx": draw(size), "ry": draw(size)}
        s["theta"] = draw(angle()) if rotated and draw(st.booleans()) else 0.0
        return s
    if k == "annulus":
        ri = draw(size)
        return {"k": "annulus", "xc": draw(coord), "yc": draw(coord), "ri": ri, "ro": ri + draw(size)}
    if k == "poly":
        vx, vy = draw(polygon_vertices())
        return {"k": "poly", "vx": vx, "vy": vy}
    if k in ("xrange", "yrange"):
        lo = draw(coord)
        return {"k": k, "lo": lo, "hi": lo + draw(size)}
    raise ValueError(k)


def build_roi(s):
    from glue.core import roi as R
    k = s["k"]
    if k == "rect":
        return R.RectangularROI(s["xmin"], s["xmax"], s["ymin"], s["ymax"], theta=s.get("theta", 0.0))
    if k == "circ":
        return R.CircularROI(s["xc"], s["yc"], s["r"])
    if k == "ellipse":
        return R.EllipticalROI(s["xc"], s["yc"], s["rx"], s["ry"], theta=s.get("theta", 0.0))
    if k == "annulus":
        return R.CircularAnnulusROI(s["xc"], s["yc"], s["ri"], s["ro"])
    if k == "poly":
        return R.PolygonalROI(list(s["vx"]), list(s["vy"]))
    if k == "xrange":
        return R.XRangeROI(s["lo"], s["hi"])
    if k == "yrange":
        return R.YRangeROI(s["lo"], s["hi"])
    if k == "range":
        return R.RangeROI(s["ori"], s["lo"], s["hi"])
    if k == "cat":
        return R.CategoricalROI(list(s["cats"]))
    if k == "point":
        return R.PointROI(s["x"], s["y"])
    if k == "path":
        return R.Path(list(s["vx"]), list(s["vy"]))
    if k == "proj3d":
        return R.Projected3dROI(build_roi(s["roi"]), np.array(s["matrix"], dtype=float))
    raise ValueError(k)


# --------------------------------------------------------------------------- subset-state specs

OPS = {"gt": operator.gt, "ge": operator.ge, "lt": operator.lt, "le": operator.le, "eq": operator.eq, "ne": operator.ne}

LEAF_KINDS_ND = ["ineq", "ineq", "ineq2", "range", "multirange", "roi", "mask", "slice", "element", "base", "catroi",
                 "category", "cateq", "floodfill", "parsed", "roind", "roi3d", "roipre"]
LEAF_KINDS_1D_ONLY = ["cat2d", "catmultirange"]


@st.composite
def leaf_spec(draw, dspec, kinds=None):
    shape = dspec["shape"]
    nd = len(shape)
    n = int(np.prod(shape))
    nums = numeric_refs(dspec)
    cats = cat_refs(dspec)
    pool = list(kinds) if kinds else list(LEAF_KINDS_ND) + (LEAF_KINDS_1D_ONLY if nd == 1 else [])
    if not cats:
        pool = [k for k in pool if k not in ("catroi", "category", "cateq", "cat2d", "catmultirange")]
    if nd == 1 and len(cats) < 1:
        pool = [k for k in pool if k not in ("cat2d", "catmultirange")]
    floats = [["c", i] for i, c in enumerate(dspec["comps"]) if c["kind"] in ("float", "int")]
    if not floats:
        pool = [k for k in pool if k != "floodfill"]
    k = draw(st.sampled_from(pool))
    thr = st.one_of(dyadic, st.integers(-1, max(shape)).map(float))
    if k == "ineq":
        return {"t": "ineq", "att": draw(st.sampled_from(nums)), "op": draw(st.sampled_from(sorted(OPS))), "val": draw(thr)}
    if k == "ineq2":
        return {"t": "ineq", "att": draw(st.sampled_from(nums)), "op": draw(st.sampled_from(sorted(OPS))),
                "val": {"att": draw(st.sampled_from(nums))}}
    if k == "range":
        lo = draw(thr)
        return {"t": "range", "att": draw(st.sampled_from(nums)), "lo": lo, "hi": lo + draw(st.sampled_from([0.0, 0.5, 1.0, 2.0, 5.0]))}
    if k == "multirange":
        pairs = []
        for _ in range(draw(st.integers(1, 3))):
            lo = draw(thr)
            pairs.append([lo, lo + draw(st.sampled_from([0.0, 0.5, 1.0, 2.0]))])
        return {"t": "multirange", "att": draw(st.sampled_from(nums)), "pairs": pairs}
    if k == "roi":
        x = draw(st.sampled_from(nums))
        y = draw(st.sampled_from(nums))
        return {"t": "roi", "x": x, "y": y, "roi": draw(roi2d_spec(kinds=("rect", "circ", "ellipse", "poly", "xrange", "yrange"), rotated=False))}
    if k == "roind":          # the n-attribute form of a region selection
        return {"t": "roind", "atts": [draw(st.sampled_from(nums)), draw(st.sampled_from(nums))],
                "roi": draw(roi2d_spec(kinds=("rect", "circ", "poly"), rotated=False)), "pre": draw(st.booleans())}
    if k == "roi3d":          # three attributes projected to the screen by a matrix, region in screen space
        sh = draw(st.sampled_from([0.0, 0.5, -1.0]))
        return {"t": "roi3d", "atts": [draw(st.sampled_from(nums)), draw(st.sampled_from(nums)), draw(st.sampled_from(nums))],
                "roi": draw(roi2d_spec(kinds=("rect", "circ"), rotated=False)),
                "matrix": [[1.0, 0.0, sh, 0.0], [0.0, 1.0, 0.0, 0.0], [0.0, 0.0, 1.0, 0.0], [0.0, 0.0, 0.0, 1.0]],
                "pre": draw(st.booleans())}
    if k == "roipre":         # region selection behind a coordinate pre-transform (degrees -> radians on x and/or y)
        return {"t": "roipre", "x": draw(st.sampled_from(nums)), "y": draw(st.sampled_from(nums)),
                "roi": draw(roi2d_spec(kinds=("rect", "circ"), rotated=False)), "coords": draw(st.sampled_from([["x"], ["y"], ["x", "y"]]))}
    if k == "mask":
        return {"t": "mask", "mask": draw(st.lists(st.booleans(), min_size=n, max_size=n))}
    if k == "slice":
        return {"t": "slice", "slices": [draw(slice_spec(shape[i]))[1:] for i in range(draw(st.integers(1, nd)))]}
    if k == "element":
        return {"t": "element", "indices": draw(st.lists(st.integers(0, n - 1), max_size=4, unique=True))}
    if k == "base":
        return {"t": "base"}
    if k == "catroi":
        ref = draw(st.sampled_from(cats))
        return {"t": "catroi", "att": ref, "cats": draw(st.lists(st.sampled_from(CAT_ALPHABET), max_size=3, unique=True))}
    if k == "category":
        ref = draw(st.sampled_from(cats))
        ncat = len(categories_of(dspec, ref))
        return {"t": "category", "att": ref, "codes": draw(st.lists(st.integers(0, ncat), max_size=3, unique=True))}
    if k == "cateq":
        ref = draw(st.sampled_from(cats))
        return {"t": "ineq", "att": ref, "op": draw(st.sampled_from(["eq", "ne"])), "val": draw(st.sampled_from(CAT_ALPHABET))}
    if k == "parsed":
        return {"t": "parsed", "att": draw(st.sampled_from(nums)), "op": draw(st.sampled_from(["gt", "le", "ge", "lt"])), "val": draw(thr)}
    if k == "floodfill":
        ref = draw(st.sampled_from(floats))
        return {"t": "floodfill", "att": ref, "start": [draw(st.integers(0, s - 1)) for s in shape],
                "threshold": draw(st.sampled_from([1.0, 1.25, 1.5, 2.0]))}
    if k == "cat2d":
        r1 = draw(st.sampled_from(cats))
        r2 = draw(st.sampled_from(cats))
        table = {}
        for c in draw(st.lists(st.sampled_from(CAT_ALPHABET), max_size=3, unique=True)):
            table[c] = draw(st.lists(st.sampled_from(CAT_ALPHABET), max_size=3, unique=True))
        return {"t": "cat2d", "att1": r1, "att2": r2, "table": table}
    if k == "catmultirange":
        r1 = draw(st.sampled_from(cats))
        r2 = draw(st.sampled_from(nums))
        table = {}
        for c in draw(st.lists(st.sampled_from(CAT_ALPHABET), max_size=3, unique=True)):
            prs = []
            for _ in range(draw(st.integers(1, 2))):
                lo = draw(thr)
                prs.append([lo, lo + draw(st.sampled_from([0.0, 1.0, 3.0]))])
            table[c] = prs
        return {"t": "catmultirange", "cat": r1, "num": r2, "table": table}
    raise ValueError(k)


def tree_spec(dspec, max_leaves=6, kinds=None, multior=True):
    leaf = leaf_spec(dspec, kinds)

    def extend(children):
        opts = [
            st.builds(lambda a, b: {"t": "and", "a": a, "b": b}, children, children),
            st.builds(lambda a, b: {"t": "or", "a": a, "b": b}, children, children),
            st.builds(lambda a, b: {"t": "xor", "a": a, "b": b}, children, children),
            st.builds(lambda a: {"t": "not", "a": a}, children),
        ]
        if multior:
            opts.append(st.builds(lambda s: {"t": "multior", "states": s}, st.lists(children, min_size=1, max_size=4)))
        return st.one_of(*opts)
    return st.recursive(leaf, extend, max_leaves=max_leaves)


def tree_depth(s):
    t = s["t"]
    if t in ("and", "or", "xor"):
        return 1 + max(tree_depth(s["a"]), tree_depth(s["b"]))
    if t == "not":
        return 1 + tree_depth(s["a"])
    if t == "multior":
        return 1 + max(tree_depth(c) for c in s["states"])
    return 0


def tree_leaves(s):
    t = s["t"]
    if t in ("and", "or", "xor"):
        return tree_leaves(s["a"]) + tree_leaves(s["b"])
    if t == "not":
        return tree_leaves(s["a"])
    if t == "multior":
        out = []
        for c in s["states"]:
            out += tree_leaves(c)
        return out
    return [s]


def leaf_kind(s):
    if s["t"] == "ineq":
        if isinstance(s["val"], dict):
            return "ineq-att-att"
        if isinstance(s["val"], str):
            return "ineq-cat"
        return "ineq"
    if s["t"] == "roi":
        return "roi:" + s["roi"]["k"] + (":pix" if s["x"][0] == "p" and s["y"][0] == "p" else "")
    return s["t"]


def pre3(x, y, z):
    """a pre-transform for 3-attribute region selections"""
    return x - 1.0, 2.0 * y, z


def pre2(x, y):
    return x - 1.0, 2.0 * y


def build_state(s, data, how="ctor"):
    """Spec -> SubsetState on `data`.  how: 'ctor' explicit constructors, 'op' python operators."""
    from glue.core import subset as S
    t = s["t"]
    if t == "ineq":
        left = ref_cid(data, s["att"])
        v = s["val"]
        right = ref_cid(data, v["att"]) if isinstance(v, dict) else v
        if how == "op" and not isinstance(right, str) and not (isinstance(v, dict) and s["op"] in ("eq", "ne")):
            return OPS[s["op"]](left, right)   # (cid == cid is an identity test by design, not a selection)
        return S.InequalitySubsetState(left, right, OPS[s["op"]])
    if t == "range":
        return S.RangeSubsetState(s["lo"], s["hi"], att=ref_cid(data, s["att"]))
    if t == "multirange":
        return S.MultiRangeSubsetState([tuple(p) for p in s["pairs"]], att=ref_cid(data, s["att"]))
    if t == "roi":
        return S.RoiSubsetState(ref_cid(data, s["x"]), ref_cid(data, s["y"]), build_roi(s["roi"]))
    if t == "roind":
        return S.RoiSubsetStateNd([ref_cid(data, a) for a in s["atts"]], build_roi(s["roi"]), pretransform=pre2 if s.get("pre") else None)
    if t == "roi3d":
        from glue.core.roi import Projected3dROI
        return S.RoiSubsetState3d(*[ref_cid(data, a) for a in s["atts"]], Projected3dROI(build_roi(s["roi"]), np.array(s["matrix"])),
                                  pretransform=pre3 if s.get("pre") else None)
    if t == "roipre":
        from glue.core.roi_pretransforms import RadianTransform
        return S.RoiSubsetState(ref_cid(data, s["x"]), ref_cid(data, s["y"]), build_roi(s["roi"]), pretransform=RadianTransform(coords=list(s["coords"])))
    if t == "mask":
        return S.MaskSubsetState(np.array(s["mask"], dtype=bool).reshape(data.shape), data.pixel_component_ids)
    if t == "slice":
        return S.SliceSubsetState(data, [slice(*x) for x in s["slices"]])
    if t == "element":
        return S.ElementSubsetState(indices=list(s["indices"]), data=data)
    if t == "base":
        return S.SubsetState()
    if t == "catroi":
        return S.CategoricalROISubsetState(att=ref_cid(data, s["att"]), roi=build_roi({"k": "cat", "cats": s["cats"]}))
    if t == "category":
        return S.CategorySubsetState(ref_cid(data, s["att"]), list(s["codes"]))
    if t == "floodfill":
        return S.FloodFillSubsetState(data, ref_cid(data, s["att"]), tuple(s["start"]), s["threshold"])
    if t == "parsed":
        from glue.core.parse import ParsedCommand, ParsedSubsetState
        sym = {"gt": ">", "ge": ">=", "lt": "<", "le": "<="}[s["op"]]
        return ParsedSubsetState(ParsedCommand("{x} %s %r" % (sym, float(s["val"])), {"x": ref_cid(data, s["att"])}))
    if t == "cat2d":
        return S.CategoricalROISubsetState2D({k: set(v) for k, v in s["table"].items()}, ref_cid(data, s["att1"]), ref_cid(data, s["att2"]))
    if t == "catmultirange":
        return S.CategoricalMultiRangeSubsetState({k: [tuple(p) for p in v] for k, v in s["table"].items()},
                                                  ref_cid(data, s["cat"]), ref_cid(data, s["num"]))
    if t in ("and", "or", "xor"):
        a = build_state(s["a"], data, how)
        b = build_state(s["b"], data, how)
        if how == "op":
            return {"and": operator.and_, "or": operator.or_, "xor": operator.xor}[t](a, b)
        return {"and": S.AndState, "or": S.OrState, "xor": S.XorState}[t](a, b)
    if t == "not":
        a = build_state(s["a"], data, how)
        return ~a if how == "op" else S.InvertState(a)
    if t == "multior":
        return S.MultiOrState([build_state(c, data, how) for c in s["states"]])
    raise ValueError(t)


# --------------------------------------------------------------------------- oracle: leaf and tree masks from the spec alone

def _cmp(op, a, b):
    with np.errstate(all="ignore"):
        return OPS[op](a, b)


def model_leaf_mask(s, dspec):
    """Independent evaluation of a leaf on the *spec* (no glue code).  Only for leaf kinds whose
    definition is elementary; ROI leaves are evaluated by pbt.oracles.geometry."""
    shape = tuple(dspec["shape"])
    t = s["t"]

    def num(ref):
        v = ref_values(dspec, ref)
        if v.dtype.kind == "U":
            cats = sorted(set(v.ravel().tolist()))
            return np.array([float(cats.index(x)) for x in v.ravel()]).reshape(shape)
        return v.astype(float)
    if t == "ineq":
        v = s["val"]
        if isinstance(v, str):
            raw = ref_values(dspec, s["att"])
            return _cmp(s["op"], raw, v)
        left = num(s["att"])
        right = num(v["att"]) if isinstance(v, dict) else v
        return _cmp(s["op"], left, right)
    if t == "parsed":
        return _cmp(s["op"], num(s["att"]), s["val"])
    if t == "range":
        x = num(s["att"])
        return (x >= s["lo"]) & (x <= s["hi"])
    if t == "multirange":
        x = num(s["att"])
        out = np.zeros(shape, dtype=bool)
        for lo, hi in s["pairs"]:
            out |= (x >= lo) & (x <= hi)
        return out
    if t == "mask":
        return np.array(s["mask"], dtype=bool).reshape(shape)
    if t == "slice":
        out = np.zeros(shape, dtype=bool)
        sl = [slice(*x) for x in s["slices"]]
        sl += [slice(None)] * (len(shape) - len(sl))
        out[tuple(sl)] = True
        return out
    if t == "element":
        out = np.zeros(int(np.prod(shape)), dtype=bool)
        out[list(s["indices"])] = True
        return out.reshape(shape)
    if t == "base":
        return np.zeros(shape, dtype=bool)
    if t == "catroi":
        raw = ref_values(dspec, s["att"])
        return np.isin(raw, list(s["cats"]))
    if t == "category":
        cats = categories_of(dspec, s["att"])
        raw = ref_values(dspec, s["att"])
        sel = [cats[c] for c in s["codes"] if c < len(cats)]
        return np.isin(raw, sel)
    if t == "cat2d":
        r1 = ref_values(dspec, s["att1"]).ravel()
        r2 = ref_values(dspec, s["att2"]).ravel()
        return np.array([(a in s["table"]) and (b in s["table"][a]) for a, b in zip(r1, r2)], dtype=bool).reshape(shape)
    if t == "catmultirange":
        r1 = ref_values(dspec, s["cat"]).ravel()
        r2 = num(s["num"]).ravel()
        out = []
        for a, b in zip(r1, r2):
            out.append(a in s["table"] and any(lo <= b <= hi for lo, hi in s["table"][a]))
        return np.array(out, dtype=bool).reshape(shape)
    if t == "roi":
        from .oracles import geometry
        return geometry.contains_strict(s["roi"], num(s["x"]), num(s["y"]))
    if t == "floodfill":
        return floodfill_model(num(s["att"]), tuple(s["start"]), s["threshold"])
    raise ValueError(t)


def floodfill_model(vals, start, thr):
    """BFS over face-connected pixels whose value lies strictly between v*(2-thr) and v*thr."""
    v = vals[start]
    with np.errstate(all="ignore"):
        ok = (vals > v * (2 - thr)) & (vals < v * thr)
    out = np.zeros(vals.shape, dtype=bool)
    if not ok[start]:
        # glue: labels == labels[start] with label 0 (background) selects every non-matching pixel
        return None
    stack = [tuple(start)]
    out[start] = True
    while stack:
        p = stack.pop()
        for ax in range(vals.ndim):
            for d in (-1, 1):
                q = list(p)
                q[ax] += d
                if 0 <= q[ax] < vals.shape[ax]:
                    q = tuple(q)
                    if ok[q] and not out[q]:
                        out[q] = True
                        stack.append(q)
    return out


def model_tree_mask(s, leafmask):
    """Boolean evaluator over leaf masks: leafmask(leaf_spec) -> bool array."""
    t = s["t"]
    if t == "and":
        return np.logical_and(model_tree_mask(s["a"], leafmask), model_tree_mask(s["b"], leafmask))
    if t == "or":
        return np.logical_or(model_tree_mask(s["a"], leafmask), model_tree_mask(s["b"], leafmask))
    if t == "xor":
        return np.logical_xor(model_tree_mask(s["a"], leafmask), model_tree_mask(s["b"], leafmask))
    if t == "not":
        return np.logical_not(model_tree_mask(s["a"], leafmask))
    if t == "multior":
        out = None
        for c in s["states"]:
            m = model_tree_mask(c, leafmask)
            out = m if out is None else np.logical_or(out, m)
        return out
    return leafmask(s)


def eq_nan(a, b):
    a = np.asarray(a)
    b = np.asarray(b)
    if a.shape != b.shape:
        return False
    if a.dtype.kind in "fc" or b.dtype.kind in "fc":
        with np.errstate(all="ignore"):
            return bool(np.all((a == b) | (np.isnan(a.astype(float)) & np.isnan(b.astype(float)))))
    return bool(np.all(a == b))


def canon_view(vs):
    import json
    return json.dumps(vs, sort_keys=True)
