import sys
import traceback


def main(argv):
    from . import common
    pid = argv[0]
    try:
        if len(argv) >= 3 and argv[1] == "--replay":
            from . import reset
            reset.process_setup()
            sig, detail = common.replay_file(pid, argv[2])
            if sig is None:
                print("replay %s: property held" % argv[2])
                return 0
            print("signature: %s" % sig)
            if detail:
                print(detail if isinstance(detail, str) else common.canon(detail)[:4000])
            if sig in common.open_signatures(pid):
                e = common.open_signatures(pid)[sig]
                print("KNOWN-FINDING: property=%s %s" % (pid, e["what"]))
                return 0
            print("VIOLATION property=%s replay=%s" % (pid, argv[2]))
            return 1
        tier = argv[1] if len(argv) > 1 else "quick"
        only = None
        if len(argv) > 3 and argv[2] == "--only":
            only = set(argv[3].split(","))
        return common.run_property(pid, tier, only)
    except Exception:
        traceback.print_exc()
        print("HARNESS-ERROR in %s" % pid)
        return 2


if __name__ == "__main__":
    sys.exit(main(sys.argv[1:]))
