#!/bin/bash
# tools/confirm_seed.sh <ID> [NAME] : confirm a sub-agent's seeded change in its scratch worktree, then file it under seeded/<NAME>/
ID=$1; NAME=${2:-$ID}; WT=/tmp/wt-$NAME; DIFF=/tmp/seed-$NAME.diff; DEMO=$WT/demo_$NAME.py
[ -f "$DEMO" ] || DEMO=$(ls $WT/demo_*.py | head -1)
set -u
cd $WT || exit 2
export PYTHONPATH=$WT MPLBACKEND=Agg
git checkout -q -- glue; git apply $DIFF || { echo "diff does not apply in worktree"; exit 2; }
/venv/bin/python $DEMO > /tmp/demo-$NAME-with.txt 2>&1; RC_WITH=$?
git apply -R $DIFF
/venv/bin/python $DEMO > /tmp/demo-$NAME-without.txt 2>&1; RC_WITHOUT=$?
git apply $DIFF
echo "demo with change rc=$RC_WITH, without rc=$RC_WITHOUT"
/venv/bin/python -m pytest -q -p no:cacheprovider -x glue/core/tests glue/utils/tests glue/viewers ${EXTRA_TESTS:-} --deselect glue/core/tests/test_pandas.py > /tmp/tests-$NAME.txt 2>&1; RC_TESTS=$?
echo "pytest rc=$RC_TESTS: $(tail -1 /tmp/tests-$NAME.txt)"
if [ $RC_WITH -ne 0 ] && [ $RC_WITHOUT -eq 0 ] && [ $RC_TESTS -eq 0 ]; then
  mkdir -p /verif/seeded/$NAME
  cp $DIFF /verif/seeded/$NAME/patch.diff
  cp $DEMO /verif/seeded/$NAME/demo.py
  echo "confirmed"
else
  echo "NOT CONFIRMED"
fi
