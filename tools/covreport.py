#!/venv/bin/python
"""tools/covreport.py <ID> [tier] [shards-to-run]

Development aid (not a registered check): runs shard 0..k-1 of a property's checks in this process under
coverage.py, restricted to the files the property is anchored in, and prints - per function - the lines the
generated cases never executed.  Unreached branches in anchored functions are generator gaps to close.
Usage:  cd /verif && PYTHONPATH=/repo:/verif MPLBACKEND=Agg /venv/bin/python -W ignore tools/covreport.py C14
"""
import ast
import json
import os
import sys

pid = sys.argv[1]
tier = sys.argv[2] if len(sys.argv) > 2 else "quick"
nrun = int(sys.argv[3]) if len(sys.argv) > 3 else 1
ROOT = os.environ.get("GLUE_VERIF_ROOT", "/repo")
os.environ.setdefault("GLUE_VERIF_ROOT", ROOT)
os.environ.setdefault("VERIF_SEED", "1")
os.environ["VERIF_NO_EVIDENCE"] = "1"
os.environ.setdefault("VERIF_WORK", "/tmp/covreport-work")
os.makedirs(os.environ["VERIF_WORK"], exist_ok=True)

props = {json.loads(l)["id"]: json.loads(l) for l in open("/verif/properties.jsonl")}
files = [os.path.join(ROOT, f) for f in props[pid]["anchors"]["files"] if f.endswith(".py")]
extra = os.environ.get("COV_EXTRA")
if extra:
    files += [os.path.join(ROOT, f) for f in extra.split(",")]

import coverage  # noqa
cov = coverage.Coverage(include=files, data_file=None, branch=False)
cov.start()
from pbt import common  # noqa
for shard in range(nrun):
    d = common.worker((pid, tier, 1, shard, 16, None))
    if d.get("harness_errors"):
        print("HARNESS:", d["harness_errors"][0][-1500:])
    if d.get("failures"):
        print("FAILURES:", [f["signature"] for f in d["failures"]][:3])
cov.stop()

for f in files:
    if not os.path.exists(f):
        continue
    try:
        _, statements, _, missing, _ = cov.analysis2(f)
    except Exception as e:  # noqa
        print("no data for", f, e)
        continue
    missing = set(missing)
    statements = set(statements)
    tree = ast.parse(open(f).read())
    funcs = []

    def visit(node, prefix=""):
        for ch in ast.iter_child_nodes(node):
            if isinstance(ch, (ast.FunctionDef, ast.AsyncFunctionDef)):
                funcs.append((prefix + ch.name, ch.lineno, ch.end_lineno))
                visit(ch, prefix + ch.name + ".")
            elif isinstance(ch, ast.ClassDef):
                visit(ch, prefix + ch.name + ".")
            else:
                visit(ch, prefix)
    visit(tree)
    print("\n== %s: %d/%d statements executed" % (os.path.relpath(f, ROOT), len(statements - missing), len(statements)))
    for name, lo, hi in funcs:
        body = {l for l in statements if lo < l <= hi}
        # lines of nested functions are reported with the nested function
        for n2, lo2, hi2 in funcs:
            if lo < lo2 and hi2 <= hi and (n2 != name):
                body -= {l for l in body if lo2 <= l <= hi2}
        if not body:
            continue
        miss = sorted(body & missing)
        if not miss:
            continue
        tag = "NEVER CALLED" if len(miss) == len(body) else "partial"
        if tag == "NEVER CALLED" and not os.environ.get("COV_ALL"):
            print("   %-60s never called (%d stmts)" % (name, len(body)))
            continue
        # compress ranges
        rng, start, prev = [], None, None
        for l in miss:
            if start is None:
                start = prev = l
            elif l == prev + 1 or not any(prev < x < l for x in statements):
                prev = l
            else:
                rng.append((start, prev))
                start = prev = l
        rng.append((start, prev))
        print("   %-60s %s %d/%d missing: %s" % (name, tag, len(miss), len(body), ", ".join("%d-%d" % r if r[0] != r[1] else str(r[0]) for r in rng)))
