#!/bin/bash
# tools/seedsweep.sh [P] : run every filed seeded change (seeded/<NAME>/patch.diff) against its property's quick check, P at a time
# (scratch worktrees, /repo untouched).  Prints one line per seed: NAME rc=<1 caught | 0 missed | 2 harness>.
cd "$(dirname "$0")/.."
P=${1:-3}
ls seeded | xargs -P $P -I{} bash -c 'n={}; id=${n:0:3}; out=$(tools/seedtest.sh $id seeded/$n/patch.diff quick 2>&1); echo "$n $(echo "$out" | grep "^seedtest" ) $(echo "$out" | grep -m1 "^signature")"'
