#!/bin/bash
# tools/runall.sh [tier] : run every registered check once; prints one status line per property
TIER=${1:-quick}
cd "$(dirname "$0")/.."
for id in C01 C02 C03 C04 C05 C06 C07 C08 C09 C10 C11 C12 C13 C14 C15 C16 C17 C18 C19 C20; do
  s=$(date +%s)
  out=$(./check $id $TIER 2>&1); rc=$?
  echo "$id rc=$rc $(( $(date +%s) - s ))s $(echo "$out" | grep "^$id " | tail -1)"
  echo "$out" | grep "VIOLATION\|HARNESS" | head -3
done
