#!/bin/bash
# tools/multiseed.sh "2 3 4" : run every quick check at several seeds (flakiness / false-alarm hunt)
cd "$(dirname "$0")/.."
for seed in $1; do
  echo "== seed $seed"
  VERIF_SEED=$seed tools/runall.sh quick 2>&1 | grep -v " rc=0 "
done
echo done
