#!/usr/bin/env python3
"""tools/mkregress.py PID CHECK NAME [SPEC_JSON|@replayfile] -> regress/PID/NAME.json"""
import json, os, sys
pid, check, name, src = sys.argv[1:5]
if src.startswith("@"):
    body = json.load(open(src[1:]))
    spec = body["spec"]; check = body.get("check", check)
else:
    spec = json.loads(src)
d = os.path.join(os.path.dirname(os.path.dirname(os.path.abspath(__file__))), "regress", pid)
os.makedirs(d, exist_ok=True)
json.dump({"property": pid, "check": check, "spec": spec}, open(os.path.join(d, name + ".json"), "w"), indent=1)
print("wrote", os.path.join(d, name + ".json"))
