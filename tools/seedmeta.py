#!/usr/bin/env python3
"""tools/seedmeta.py <sweep-output> : (re)write seeded/<NAME>/meta.json for the round-2 seeds from the hand-written descriptions below
and the signatures printed by tools/seedsweep.sh (one line per seed: "NAME seedtest ID rc=N signature: ...")."""
import json
import os
import re
import sys

ROUND2 = {
    "C01b": ("EditSubsetMode._combine_data replaces instead of combining when the edited group has no selection yet (every mode but And)",
             "an AndNot / Xor / Or edit applied to a subset group that has never been given a selection",
             "missed: edit programs always started from a group with a selection; `start_empty` added"),
    "C02b": ("_load_style rebuilds VisualAttributes through keyword arguments, so falsy saved values fall back to the defaults",
             "a style with alpha 0 (or linewidth / markersize 0) saved and restored",
             "missed: style generator had no zero values; added"),
    "C03b": ("discover_links takes the minimum instead of the maximum depth of a multi-input link's inputs",
             "a two-input link whose inputs are reached at different depths, competing with a longer single-input route",
             "caught"),
    "C04b": ("Data.compute_statistic shapes the all-NaN result (selection misses the region) from the dataset instead of from the mask",
             "subset_state + axis + a view (always the case through IndexedData) where the selection has no member inside the view",
             "missed by C04 (its IndexedData statistics had no axis); caught by C10 `indexed_statistics`; C04 `indexed_data` now reads statistics along every axis, with and without the selection"),
    "C05b": ("SubsetState.__setattr__ skips the cache invalidation when the assigned object is the one already stored",
             "a parameter object edited in place and then assigned again (state.pairs.append(..); state.pairs = state.pairs)",
             "missed: no in-place+reassign mutation; added for pairs / roi / mask / categories"),
    "C06b": ("_load_data_collection_4 registers the restored groups to the hub before they are in the collection (loop over an empty list)",
             "save + restore of a collection with a group, then a dataset appended to / removed from the restored collection",
             "caught"),
    "C07b": ("HubCallbackContainer.__getitem__ rebinds a bound-method filter to the handler's instance",
             "a subscription whose filter is a bound method of another object than the handler's, the two holding different state",
             "missed: filters were lambdas only; bound-method filters of the listener and of a separate gate object added"),
    "C08b": ("RectangularROI.to_polygon returns the unrotated corners for theta % (pi/2) == 0 instead of theta % pi == 0",
             "a non-square rectangle rotated by an odd multiple of pi/2, observed through to_polygon()",
             "caught"),
    "C09b": ("roi_to_subset_state decomposes a rectangle over a categorical axis into two ranges for theta % (pi/2) == 0",
             "a non-square rectangle at an odd multiple of pi/2 with at least one categorical axis",
             "caught"),
    "C10b": ("compute_statistic: `keep = mask` instead of `keep &= mask` drops the finite / positive filters when a mask is given",
             "a mask together with NaN / non-positive values and finite=True / positive=True",
             "caught"),
    "C11b": ("LinkManager.remove_link pops the loop variable instead of the matched partner from data1._key_joins",
             ">=3 datasets, a hub that is data1 of >=2 JoinLinks, removal of a link that is not the hub's latest join, then a read on the hub",
             "missed: joins were never removed; JoinLink remove / re-add edits between reads added"),
    "C12b": ("VersionedDict.__setitem__ rejects only an overwrite of the newest version; older versions can be replaced silently",
             "a key with >=2 versions and a second assignment of a version that is not the newest",
             "caught"),
    "C13b": ("DataCollection.remove_subset_group unregisters the group inside the loop over its subsets (never, if it has none)",
             "a selection command on an empty collection, undone, then a dataset enters the collection (e.g. undo of RemoveData)",
             "caught"),
    "C14b": ("ParsedCommand.evaluate resets the shared __view to None after evaluating",
             "a parsed expression that refers to another parsed attribute followed by a further tag, read with a view",
             "missed: parsed expressions never referred to parsed attributes; 1-3 layers added, view read first"),
    "C15b": ("_coupled_axes closes the coupling relation with all() instead of any(): axes coupled through an intermediate axis are dropped",
             "a 3-d transformation coupled in a chain (0-1, 1-2), world->pixel link of an end-of-chain axis",
             "caught"),
    "C16b": ("translate_pixel reports only the component's own axis instead of dependent_axes for a world coordinate of the reference",
             "a reference dataset with coupled (sheared) coordinates and a source linked through world attributes",
             "missed: the reference had no coordinates and links were pixel links; `rcoords` and `via_world` added (this also exposed a regression of my own fix c0d694b, repaired as dfc568c)"),
    "C17b": ("Data.update_id tests old.parent instead of new.parent: a parentless replacement identifier keeps parent None",
             "update_id with a fresh ComponentID, then a rename of that identifier (no DataRenameComponentMessage is sent)",
             "caught"),
    "C18b": ("ComponentIDComboHelper offers datetime attributes when `numeric` is set instead of when `datetime` is set",
             "a dataset with a datetime attribute and a helper whose numeric and datetime flags differ",
             "missed: no datetime attributes / flag; added"),
    "C19b": ("data_to_astropy_table drops the mask when it selects nothing (`not mask.any()` where mask.all() was meant)",
             "an empty subset exported with any table exporter",
             "missed: zero-row tables were a counted, unasserted class; now whatever the reader returns must hold no rows"),
    "C20b": ("index_lookup ravels n-d input in memory order ('K') but reshapes in C order",
             "a >=2-d categorical array whose memory order differs from C order (transpose, Fortran order)",
             "missed: 2-d arrays were C-ordered only; Fortran-ordered, transposed inputs and transposed views added"),
}

ROUND3 = {
    "C01c": ("get_mask_with_key_joins resets the recursion guard only when a joined dataset could evaluate the selection (try/finally 'simplified')",
             "two datasets joined by key, an evaluation on one of them that ends in IncompatibleAttribute, then a composite evaluated across the join from the other side",
             "missed: C01 had no key-joined dataset (C11 has the guard check); composites are now also read from a dataset joined by key, before and after failed evaluations in every order"),
    "C02c": ("_load_component_link drops the stored inverse for every link (`len(frm) >= 1` instead of `> 1`)",
             "a ComponentLink with using= and an explicit inverse= added directly to the collection, observed from the dataset on the `to` side after a restore",
             "caught"),
    "C04c": ("IndexedData.indices builds its slice state from slice(i, i+1): empty for i == -1, so histograms of the last plane are all zero",
             "an IndexedData whose indices contain exactly -1, then compute_histogram",
             "missed: indices were never negative; negative forms added in C04 and C10"),
    "C05c": ("_set_externally_derivable_components' 'unchanged' shortcut compares the links' functions instead of the link objects",
             "the link through which an attribute is derived is replaced, in one link-manager update, by a link from another source with the same function (two identity links)",
             "missed: links were only replaced by remove-then-add with different functions; a second source, identity links and set_links / delayed / list forms added (C03 caught it as it stood)"),
    "C07c": ("Hub._find_handlers falls back to the listener's subscription to a parent class when the most specific subscription's filter rejects the message",
             "one listener subscribed to two classes of one inheritance chain, the more specific one with a filter that rejects the message",
             "caught"),
    "C11c": ("concatenate_arrays gives every key column of an n-n join the first column's dtype",
             "an n-n join whose later key column is wider / of another kind than the first, and keys that differ only in the part cut off",
             "caught"),
    "C14c": ("ComponentLink.compute reshapes a differently-shaped function result to the full shape instead of the inputs' common shape",
             "a function link returning e.g. a ravelled result whose inputs are all broadcast views (pixel / world attributes), >=2-d data",
             "caught"),
    "C16c": ("_set_externally_derivable_components' 'unchanged' shortcut compares each old link with itself",
             "the collection's links are replaced in one go (set_links) by links between the same attributes with another transformation, then a buffer is requested",
             "missed: links were fixed within a request sequence; a third of the sequences now replace the links once (set_links / delayed / one by one)"),
    "C18c": ("ImageViewerState._reference_data_changed switches off the x picker's pixel flag twice and never the y picker's",
             "an image viewer whose reference first has no world coordinates and then moves to a dataset that has them",
             "missed: image datasets had no coordinates and the axis pickers' choices were not compared; both added, plus focused histories that move the reference"),
    "C19c": ("hdf5_writer skips the masking when the subset selects nothing (`mask.any()` where `not mask.all()` was meant)",
             "an empty subset exported to HDF5 (table or image)",
             "caught"),
    "C20c": ("view_shape converts a list view to a tuple",
             "a bare Python list of positions passed as the view",
             "missed: views were tuples / arrays only; bare lists, bare arrays and lists of booleans added"),
}

ROUND3.update({
    "C03c": ("LinkManager._component_removed removes links from the list it iterates over",
             "an attribute that takes part in two links registered one after the other, then removed from its dataset",
             "caught"),
    "C06c": ("SubsetGroup._add_data's 'already has a subset' guard looks for any subset with the group's label on the new dataset",
             "two live groups with the same label, then a dataset enters the collection",
             "missed: labels were drawn from six values and rarely collided; two label values and labelled group creation now"),
    "C08c": ("PolygonalROI.rotate_to remembers the increment instead of the absolute angle",
             "three or more rotate_to calls on one polygon",
             "missed: one rotation per case; a chain of up to four absolute rotations now, theta and contained set checked after each"),
    "C09c": ("RectangularROI.to_polygon returns the unrotated corners for theta % (pi/2) == 0 (same change as seed C08b, proposed independently)",
             "a non-square rectangle at an odd multiple of pi/2 over one categorical and one numerical axis",
             "caught"),
    "C10c": ("SliceSubsetState.to_array looks the pixel alignment up in the wrong direction (inverse axis permutation)",
             "a slice selection defined on dataset A, a statistic without a view on a dataset B aligned with A through a 3-cycle of pixel axes",
             "missed: statistics were computed on the selection's own dataset; `aligned_statistics` added (worlds shared with C04's pixel-aligned check)"),
    "C12c": ("lookup_class_with_patches follows the rename table one hop instead of to a fixed point",
             "a record whose _type reaches its current name through two entries of the rename table",
             "missed: the check followed the table itself; the library's resolver must now reach the same object from every old name"),
    "C13c": ("ApplySubsetState.do pops override_mode from the command's arguments",
             "a selection command with an explicit non-default edit mode, undone and redone",
             "caught"),
    "C15c": ("CoordinateComponent._calculate uses a scalar view item as the pixel position (negative index not resolved)",
             "a view of scalars and slices with a negative scalar on an axis the world coordinate depends on",
             "caught"),
    "C17c": ("Data.find_component_id no longer stops at an ambiguous name in a higher-precedence set",
             "two main components with the same label plus one lower-precedence component with that label",
             "caught"),
    "C01d": ("ElementSubsetState.copy assigns through the `data` property (whose setter does not set the uuid): copies are no longer tied to their dataset",
             "an element selection bound to a dataset, placed in a composite / edit mode / paste, evaluated on another dataset",
             "missed: the evaluation on the unrelated dataset was only used to decide whether to test the join; selections tied to their dataset must now raise IncompatibleAttribute there"),
    "C04d": ("same change as C15c (proposed independently for C04)",
             "see C15c",
             "caught"),
    "C05d": ("LinkManager.update_externally_derivable_components clears the memo caches only while some link exists",
             "a collection whose datasets have no links of their own, a memoised selection evaluated through the only link, that link removed",
             "missed: every C05 world had a derived attribute (a link); plain collections and link-focused histories (`link_histories`) added"),
    "C16d": ("bounds_for_cache stores a ranged bound of a non-contributing dimension as the scalar wildcard",
             "same cache id: a ranged bound on a dimension that reaches no source dimension, then a scalar bound there, everything else equal",
             "caught"),
    "C18d": ("LayerArtistContainer.ignore_callbacks never re-enables change callbacks",
             "a viewer that was saved and restored, then a subset layer removed on the container side",
             "caught"),
    "C20d": ("unique() ravels in memory order ('K') but reshapes the codes in C order",
             "an n-d categorical array without explicit categories that is not C-ordered",
             "caught"),
})

ROUND3.update({
    "C01e": ("RoiSubsetState3d.copy no longer carries the pre-transform over",
             "a three-attribute region selection with a pre-transform, copied (inside a composite, through an edit mode, pasted)",
             "missed: the new n-attribute / 3-attribute leaves had no pre-transform; added"),
    "C05e": ("update_values_from_data clears the memo caches before it removes the components that the new data lacks",
             "a refresh that drops a component while a hub listener re-reads a memoised selection on the messages sent in between",
             "missed: nothing listened during updates and no refresh dropped a component; a listener that re-reads every mask on every hub message and a droppable spare component added - which also exposed the same pattern in the link manager on the unchanged tree (section 5.2)"),
    "C06d": ("Hub.delay_callbacks detaches (and drops) the queue whenever any nested block closes",
             "an outer delay block containing append/remove followed by new_subset_group / remove_subset_group (which open their own block), with another group present",
             "caught"),
    "C08d": ("Projected3dROI.contains3d builds the homogeneous vertex array with x's dtype",
             "an integer x array with non-integral float y / z",
             "missed: all coordinates were float arrays; one coordinate is now given as an integer array in 2 of 5 cases"),
    "C10d": ("HistogramLayerState.histogram normalises the cached counts in place (np.asarray instead of astype)",
             "normalize on, read, normalize off (or cumulative), read - with range and bins unchanged in between",
             "missed by C10 (each step drew a new range, which resets the cache; C05 `histogram_layer_state` catches it): half of the steps now keep range and bins"),
    "C12d": ("_load_data_collection (DataCollection protocols 1-3) treats a link as external only if all, not any, of its inputs are foreign",
             "an old-format collection record with a multi-input link whose inputs span datasets and whose output lies in one of them",
             "missed: no such link was generated; link kind `mixed` added to the session generator"),
})

ROUND3.update({
    "C01f": ("RoiSubsetState.copy is rebuilt through the constructor and no longer carries the pre-transform",
             "a 2-d region selection with a pre-transform used inside a composite, an edit mode or a paste",
             "caught"),
    "C05f": ("MultiOrState.to_mask copies the first member's mask only if it is read-only, then or-s into it in place",
             "a many-way 'or' whose first member is a memoised state object that is also another subset's state",
             "missed by C05 (no state object was shared between selections; C01 catches the same mechanism): a group whose MultiOrState keeps the first group's state object as first member added"),
    "C08e": ("VertexROIBase.reset no longer resets theta",
             "a polygon rotated, emptied with reset(), drawn again with add_point and rotated again",
             "missed: region objects were never emptied and redrawn; added for polygons (compared with a new polygon of the same vertices)"),
    "C10e": ("Data.compute_histogram nudges the upper limit before instead of after taking log10",
             "a log-space histogram whose upper limit equals a data value of magnitude >= 1e4 or <= 1e-5",
             "missed: values spanned few decades; `log_histograms_wide` (1e-12 .. 1e12, limits on data values, totals and the upper-limit sample asserted) added"),
    "C12e": ("the FunctionType loader resolves the stored path without the rename table",
             "a function record (link function, data factory) naming the function's old location",
             "missed: old names were resolved but no function record was loaded; every renamed function is now loaded as a FunctionType record through GlueUnSerializer"),
})

ROUND3.update({
    "C02d": ("the loader of inline categorical components wraps the restored categories in np.unique (which sorts)",
             "a categorical component whose categories were given explicitly in an order that is not the sorted one",
             "missed: categorical components always had default (sorted) categories; explicit orders (with an unused category) added to the session generator"),
    "C03d": ("BaseMultiLink.__init__ tests the wrong side when deciding whether the backwards function returns a tuple",
             "a MultiLink with one attribute on one side and two on the other, read from the side with two",
             "missed: no multi-attribute link collections in the link histories; MultiLink 1:2 and 2:1 added to model and generator"),
    "C07d": ("Hub.delay_callbacks flushes the queue after, not inside, the finally clause",
             "the outermost delay block left by an exception while messages are queued",
             "caught"),
    "C09d": ("polygon_line_intersections closes an open polygon with (x_first, y_last)",
             "an unclosed polygon whose closing edge is oblique, one categorical and one numerical axis",
             "caught"),
    "C11d": ("Data.join_on_key registers the reverse direction with setdefault",
             "the same pair of datasets joined a second time with other key columns or another shape",
             "caught"),
    "C13d": ("ApplyROI.undo restores only subsets still attached; the per-group restore only for groups without subsets",
             "an ApplyROI on an existing group, every dataset removed and restored in between, then undo",
             "caught"),
    "C14d": ("dependents of a removed attribute are collected in one pass in listing order instead of recursively",
             "a derived attribute listed before the derived attribute it is computed from (redefined in place, or reordered), then an input removed",
             "missed: histories never reordered or redefined attributes; both added"),
    "C15d": ("AffineCoordinates.axis_correlation_matrix uses np.isclose(x, 0) (absolute tolerance 1e-8)",
             "an affine transformation with a genuine coefficient of magnitude <= 1e-8 (a world axis in very small units)",
             "missed: coefficients were of order one; a world axis scaled by 2**-40 (exact) added"),
    "C17d": ("the ComponentID.label setter compares the raw value with the stored text",
             "a label assigned a non-string value whose text equals the current label",
             "missed: labels were strings only; numeric labels added to the rename step"),
    "C19d": ("extract_hdf5_datasets memory-maps datasets without a file offset (`and` for `or`)",
             "an empty subset of a table exported to HDF5 and loaded back",
             "missed: a reader failing on a zero-row file was recorded, not asserted; every reader copes on the unchanged tree, so it is asserted now"),
})

ROUND3.update({
    "C02e": ("GlueUnSerializer.object strips the string marker with str.replace instead of slicing off the prefix",
             "a saved string (metadata key or value, string operand of a selection) that contains `st__` beyond the prefix",
             "missed: metadata strings never contained the marker inside; added"),
    "C03e": ("LinkCollection.__contains__ returns after looking at the first sub-link only",
             "a MultiLink with two attributes on a side, then removal of the attribute that is not in the first sub-link",
             "caught (by the MultiLinks added for seed C03d)"),
    "C05g": ("RoiSubsetStateNd.move_to clears only the cache of CompositeSubsetState.to_mask",
             "a region selection inside an InvertState or a MultiOrState, evaluated, then moved",
             "caught"),
    "C08f": ("points_inside_poly returns all-False for polygons with fewer than four vertices",
             "a triangle given as three vertices (not closed)",
             "caught"),
    "C10f": ("nansum_with_nan_for_empty counts finite instead of non-NaN values when deciding whether a group is empty",
             "sum with finite=False over a group whose kept values are all +inf (or all -inf)",
             "caught"),
    "C12f": ("coerce_subset_groups iterates over the live list of subsets it deletes from",
             "a DataCollection protocol-1 record in which one dataset holds two or more plain subsets",
             "missed: protocol-1 collections were compared as sets of (label, mask) per dataset, which a leftover plain subset satisfies; loaded collections must now be well-formed (every subset in a group of the collection, one per group)"),
    "C14e": ("BinaryComponentLink.replace_ids examines the right operand only if the left one did not match (`elif`)",
             "an expression with the re-identified attribute on the right of a sub-expression (or on both sides), then update_id",
             "caught"),
    "C15e": ("update_values_from_data assigns _coords directly, so the coordinate links keep the previous transformation",
             "a refresh from a dataset with another coordinate object, then the coordinate links are read",
             "missed: coordinates never changed after construction; a refresh with a second generated transformation added"),
    "C17e": ("same change as C14e (proposed independently for C17)",
             "see C14e; C17 notices it when a listed derived component can no longer be read",
             "missed: C17's derived components were `x * 2` only and the shape invariant did not compute them; compound expressions added and derived components are read"),
    "C19e": ("astropy_tabular_data decides 'fill masked cells with NaN' with np.issubdtype(dtype, float), which is False for float32",
             "a single-precision column with NaN exported as VO table and loaded back",
             "missed: float columns were float64 only; float32 columns added"),
})

ROUND3.update({
    # round 9 (session 3)
    "C02f": ("RoiSubsetStateNd.attributes de-duplicates its attributes, and the generic saver of n-attribute region selections builds the saved list from it",
             "a direct n-attribute region selection that uses the same attribute on two axes, saved and restored",
             "caught"),
    "C03f": ("Data._removed_derived_that_depend_on pops dependent derived components directly: no DataRemoveComponentMessage for them, so the link manager keeps links that touch them",
             "a dataset with an own derived attribute, an external link touching the derived attribute, then removal of the derived attribute's *input*",
             "missed: the history was generatable but needed three rare steps in order (1 in >2000 histories); focused generator `derived_dependent_histories` added"),
    "C04e": ("RoiSubsetStateNd.to_mask tests isinstance(att, PixelComponentID) instead of membership in the dataset's own pixel ids before taking the pixel-space shortcut",
             "a region on pixel axes of dataset A evaluated on a linked dataset B that has an axis whose number is not among A's region axes",
             "caught"),
    "C06e": ("Subset.delete removes the dataset's entry by label (first match) instead of by identity",
             "two subset groups that share a label (group labels are free text) and removal of the later one while a dataset is present",
             "missed: groups did share labels (261 of 600 random histories) but none removed the later of two same-labelled groups with a dataset present; `label_clash_histories` enumerates all such histories up to 5 steps"),
    "C07e": ("_mro_count memoised by class __name__: two message classes that share a name tie for 'most specific'",
             "a message class refined under the same class name, one listener subscribed to the general class first and the refinement second",
             "missed: the four message classes had distinct names; every program now also runs with all message classes named alike (`same_names`), plus an enumerated block with general-then-specific subscriptions"),
    "C09e": ("EllipticalROI.to_polygon skips the rotation for theta % (pi/2) == 0 instead of theta % pi == 0",
             "an ellipse with unequal radii at an odd multiple of pi/2 over exactly one categorical axis",
             "caught"),
    "C11e": ("ElementSubsetState.copy assigns through the `data` property (which stores elsewhere), so the copy is bound to no dataset",
             "a row-position selection bound to one dataset, copied (edit mode, paste), read on a key-joined dataset whose length admits the positions",
             "missed: selections were inequality states only; element selections (0-2 copies deep) added"),
    "C13e": ("_store_subset_groups skips the snapshot when the command object already has one (a redone command keeps the groups it saw first)",
             "undo two deep across a group-creating selection, redo both, undo the upper one",
             "caught"),
    "C14f": ("parse._validate skips a tag whose component was already seen, so a second spelling of the same attribute is left unreplaced",
             "a parsed expression that mentions one attribute twice with different legal spellings ({x} and { x }) or through two tag names",
             "caught"),
    "C16e": ("bounds_for_cache returns the caller's own list when no bound becomes a wildcard, so the cache keys alias it",
             "one cache id, one bounds list edited in place by the caller between requests, no wildcard dimension",
             "missed: every request passed a fresh list; `reuse_bounds_list` keeps one list per sequence and edits it in place"),
    "C18e": ("ProfileViewerState._reference_data_changed remembers the last reference only when it is not None",
             "a profile viewer emptied and then given back the dataset that was its reference when it emptied",
             "caught"),
    "C20e": ("categorical_ndarray.__array_finalize__ shares the parent's cached codes with same-shape derived arrays",
             "a same-shape reordering (reverse, permutation, sort, roll, square transpose) of a categorical array whose codes were computed",
             "caught"),
})

ROUND9 = {"C02f", "C03f", "C04e", "C06e", "C07e", "C09e", "C11e", "C13e", "C14f", "C16e", "C18e", "C20e"}
sweep = {}
if len(sys.argv) > 1 and os.path.exists(sys.argv[1]):
    for line in open(sys.argv[1]):
        m = re.match(r"(\S+) seedtest (\S+) rc=(\d+)\s*(?:signature: (.*))?", line.strip())
        if m:
            sweep[m.group(1)] = (int(m.group(3)), (m.group(4) or "").strip())

root = os.path.join(os.path.dirname(os.path.abspath(__file__)), "..", "seeded")
rows = []
ALL = dict(ROUND2)
ALL.update(ROUND3)
rows3 = []
for name, (change, needs, first) in sorted(ALL.items()):
    d = os.path.join(root, name)
    if not os.path.isdir(d):
        print("no directory for", name)
        continue
    rc, sig = sweep.get(name, (None, ""))
    if rc is None and os.path.exists(os.path.join(d, "meta.json")):
        # not part of this sweep: keep what the last sweep that included it recorded
        prev = json.load(open(os.path.join(d, "meta.json")))
        if prev.get("detected") is not None:
            rc = 1 if prev["detected"] else 0
            sig = (prev.get("caught_by") or "").split(" quick: ", 1)[-1] if prev.get("caught_by") else ""
    meta = {
        "breaks": name[:3],
        "round": 3 if name in ROUND3 else 2,
        "change": change,
        "needs": needs,
        "first_version_of_the_check": first,
        "caught_by": ("%s quick: %s" % (name[:3], sig)) if sig else None,
        "detected": (rc == 1) if rc is not None else None,
        "ran": [
            "sub-agent (saw only the property text and its own scratch worktree): full suite with the change, 1467 passed / 8 failed (the same 8 fail on the untouched tree)",
            "re-confirmed here with tools/confirm_seed.sh in the scratch worktree: demo.py exits 1 with the change and 0 without; pytest -x glue/core/tests glue/utils/tests glue/viewers (test_pandas deselected) with the change: rc 0",
            "tools/seedtest.sh %s seeded/%s/patch.diff -> ./check %s quick against /repo HEAD + patch (scratch worktree): exit %s" % (name[:3], name, name[:3], rc),
        ],
    }
    if name in ROUND9:
        meta["round"] = 9
        meta["ran"][0] = ("sub-agent (saw only the property text, the list of earlier seed locations and its own scratch worktree): "
                          "glue/core/tests + glue/utils/tests (+ the tests next to the change) with the change, 1134 passed, 0 failed")
    with open(os.path.join(d, "meta.json"), "w") as f:
        json.dump(meta, f, indent=1)
    print(name, rc, sig)
    (rows3 if name in ROUND3 else rows).append("| %s | %s (%s) | %s | %s |" % (name, change, needs, ("`%s`" % sig) if sig else "-", first))

design = os.path.join(root, "..", "DESIGN.md")
text = open(design).read()
a, b = text.index("<!-- ROUND2-BEGIN -->"), text.index("<!-- ROUND2-END -->")
text = text[:a] + "<!-- ROUND2-BEGIN -->\n" + "\n".join(rows) + "\n" + text[b:]
a, b = text.index("<!-- ROUND3-BEGIN -->"), text.index("<!-- ROUND3-END -->")
text = text[:a] + "<!-- ROUND3-BEGIN -->\n" + "\n".join(rows3) + "\n" + text[b:]
open(design, "w").write(text)
