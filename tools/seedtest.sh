#!/bin/bash
# tools/seedtest.sh <ID> <patch> [tier] : apply a seeded change to /repo, run the check, undo it.
ID=$1; PATCH=$2; TIER=${3:-quick}
cd /repo || exit 2
if [ -n "$(git status --porcelain --untracked-files=no)" ]; then echo "repo not clean"; exit 2; fi
git apply "$PATCH" || { echo "patch does not apply"; exit 2; }
cd /verif && ./check $ID $TIER 2>&1 | grep -v "^Traceback\|^  " | tail -${LINES_OUT:-6}
rc=${PIPESTATUS[0]}
git -C /repo checkout -- . 
echo "seedtest $ID rc=$rc"
