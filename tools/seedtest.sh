#!/bin/bash
# tools/seedtest.sh <ID> <patch> [tier] : apply a seeded change to /repo, run the check, undo it.
ID=$1; PATCH=$2; TIER=${3:-quick}
cd /repo || exit 2
if [ -n "$(git status --porcelain --untracked-files=no)" ]; then echo "repo not clean"; exit 2; fi
git apply "$PATCH" || { echo "patch does not apply"; exit 2; }
# evidence must only ever come from the unchanged tree: keep the committed file aside while the patched tree is checked
cp /verif/evidence/$ID.json /verif/.work-evidence-$ID.json 2>/dev/null
cd /verif && ./check $ID $TIER 2>&1 | grep -v "^Traceback\|^  " | tail -${LINES_OUT:-6}
rc=${PIPESTATUS[0]}
git -C /repo checkout -- . 
[ -f /verif/.work-evidence-$ID.json ] && mv /verif/.work-evidence-$ID.json /verif/evidence/$ID.json
echo "seedtest $ID rc=$rc"
