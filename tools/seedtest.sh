#!/bin/bash
# tools/seedtest.sh <ID> <patch> [tier] : run a property's check against /repo's HEAD plus a seeded change.
# The change is applied in a throw-away git worktree of /repo (outside /repo and /verif, removed afterwards) and the
# check is pointed at it with GLUE_VERIF_ROOT, so /repo itself is never modified and concurrent runs do not see the change.
# SEEDTEST_INPLACE=1 applies it to /repo instead (git apply ... ; git checkout -- .).
ID=$1; PATCH=$(readlink -f "$2"); TIER=${3:-quick}
if [ -n "$(git -C /repo status --porcelain --untracked-files=no)" ]; then echo "repo not clean"; exit 2; fi
if [ -n "${SEEDTEST_INPLACE:-}" ]; then
  WT=/repo
  git -C /repo apply "$PATCH" || { echo "patch does not apply"; exit 2; }
else
  WT=/tmp/wt-seedtest-$ID-$$
  git -C /repo worktree add -q --detach $WT HEAD || exit 2
  git -C $WT apply "$PATCH" || { echo "patch does not apply"; git -C /repo worktree remove --force $WT; exit 2; }
fi
# evidence must only ever come from the unchanged tree: the run against the patched tree does not write it
cd /verif && VERIF_NO_EVIDENCE=1 GLUE_VERIF_ROOT=$WT ./check $ID $TIER ${ONLY:+--only $ONLY} 2>&1 | grep -v "^Traceback\|^  " | tail -${LINES_OUT:-6}
rc=${PIPESTATUS[0]}
if [ -n "${SEEDTEST_INPLACE:-}" ]; then git -C /repo checkout -- . ; else git -C /repo worktree remove --force $WT; fi
echo "seedtest $ID rc=$rc"
