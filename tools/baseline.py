#!/venv/bin/python
"""Run the repository's pinned suite (guard off) and compare with BASELINE.json stable_pass.
usage: tools/baseline.py [repo_root]   -> exit 0 iff every stable_pass test still passes."""
import json, os, subprocess, sys, tempfile
import xml.etree.ElementTree as ET
root = sys.argv[1] if len(sys.argv) > 1 else "/repo"
base = json.load(open("/root/.vp/BASELINE.json"))
out = tempfile.mktemp(suffix=".xml", dir="/var/tmp")
env = dict(os.environ)
env.pop("GLUE_VERIF", None)
env["PYTHONPATH"] = root
cmd = ["/venv/bin/python", "-m", "pytest", "-q", "-p", "no:cacheprovider", "--timeout=900",
       "--continue-on-collection-errors", "-x" if "-x" in sys.argv else "-q", "--junitxml=" + out] + [a for a in sys.argv[2:] if a != "-x"]
p = subprocess.run(cmd, cwd=root, env=env, stdout=subprocess.PIPE, stderr=subprocess.STDOUT, text=True)
print(p.stdout[-1500:])
passed = set()
for tc in ET.parse(out).getroot().iter("testcase"):
    if not any(ch.tag in ("failure", "error", "skipped") for ch in tc):
        passed.add("%s::%s" % (tc.get("classname"), tc.get("name")))
os.remove(out)
stable = set(base["stable_pass"])
missing = sorted(stable - passed)
print("stable_pass=%d passed_now=%d missing=%d" % (len(stable), len(passed), len(missing)))
for m in missing[:40]:
    print("  NOT PASSING:", m)
sys.exit(1 if missing else 0)
