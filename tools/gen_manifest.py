#!/usr/bin/env python3
"""Writes MANIFEST.json from the table below (kept in one place so it is always valid)."""
import json, os
HERE = os.path.dirname(os.path.dirname(os.path.abspath(__file__)))
BASE = "cd /repo && /venv/bin/python -m pytest -ra -q -p no:cacheprovider --timeout=900 --continue-on-collection-errors"

CHECKS = {
 "C20": dict(
   technique="exhaustive enumeration of finite helper domains against direct numpy/set oracles (property-based, bounded-exhaustive)",
   text="Bounded-exhaustive generated-input search: every shape/chunk limit/slice pair/stride pattern/categorical array up to the stated bounds is enumerated and compared with an independent oracle (visit counter, range() slicing, numpy indexing, list.index). Exhaustive within the bounds, nothing beyond them.",
   note="Trusted: numpy indexing semantics and Python range slicing as oracles; bounds listed in evidence coverage.bounds.",
   ref="DESIGN.md section 4 C20"),
}
CHECKS["C07"] = dict(
   technique="model-based testing: generated hub programs (exhaustive small + Hypothesis random) run against glue's Hub and an independent simulator; delivery logs compared",
   text="Generated-schedule search with a reference model: every flat program up to the bound and thousands of random nested programs with re-entrant handler scripts are executed on the real hub and on a simulator written from the statement; any difference in who receives what, how often, in which order and nesting is a violation.",
   note="Trusted: the simulator in pbt/props/c07.py as the reading of the statement; single-threaded (the hub is synchronous); handlers never raise; equal priorities are not generated.",
   ref="DESIGN.md section 4 C07")
CHECKS["C01"] = dict(
   technique="property-based differential testing (Hypothesis): generated expression trees / edit-mode programs vs. a numpy Boolean evaluator over fresh leaf masks",
   text="Generated-input search with an explicit oracle: for generated datasets, expression trees over every elementary selection kind and edit-mode programs, the composite's mask must equal numpy logical ops over the masks of freshly built leaves, before and after generated evaluation schedules, copies and views, and every operand must keep its parameters and mask.",
   note="Trusted: numpy logical ops; leaf masks are taken from glue itself (fresh leaves), so leaf correctness is not established here (C04/C08/C09).",
   ref="DESIGN.md section 4 C01")
CHECKS["C08"] = dict(
   technique="property-based testing (Hypothesis) against an exact signed-distance geometry oracle, plus metamorphic move/rotate/copy/round-trip relations",
   text="Generated regions (all ROI classes, angles at/near multiples of pi/2, thin shapes, concave open/closed polygons, projected 3-d with chunk limits) and point sets with probe rings hugging the true boundary in many array layouts; contains() must equal the sign of an independently computed signed distance off a 1e-7 band; move_to/rotate_to/to_polygon/copy/serialiser round trip are checked as metamorphic relations with the same oracle.",
   note="Trusted: the signed-distance code in pbt/oracles/geometry.py; tolerance band 1e-7*scale; simple polygons only.",
   ref="DESIGN.md section 4 C08")
CHECKS["C04"] = dict(
   technique="property-based differential testing (Hypothesis): viewed read vs. the same view of the full result, for every attribute/selection kind and IndexedData",
   text="Generated-input search with the oracle 'index the full result': for generated datasets, every attribute kind (stored, categorical, derived, linked, pixel, world), every selection kind and composite, and every supported view form, the viewed read must equal the full result indexed by the view (shape, dtype kind, NaN-equal values); IndexedData values, masks, statistics and histograms must equal those of the parent slice, also after its indices change.",
   note="Trusted: numpy indexing; the full (un-viewed) result is taken from glue itself, so only view consistency is established here. All-integer (0-d) views are counted, not asserted.",
   ref="DESIGN.md section 4 C04")
CHECKS["C10"] = dict(
   technique="property-based differential testing (Hypothesis): compute_statistic / compute_histogram vs. textbook numpy reducers and own binning, over chunk limits, views, axes, selections",
   text="Generated-input search against a reference implementation: statistics (all six kinds) for generated data/selection/axis/view/filter/chunk-limit combinations must equal nan-aware numpy reducers over the selected filtered values with the viewed shape minus the axes; histograms (1-d, 2-d, log, weights, reversed ranges, samples on range ends) must equal own equal-width binning with edge slack checked through cumulative counts; IndexedData statistics with selection and axis are included.",
   note="Trusted: numpy reducers and the selection mask as evaluated by glue (mask correctness is C01/C04/C08). A top-level SliceSubsetState with axis returns an undocumented compact shape, accepted when equal to the expected values on the slice; the plain-reducer corner (finite=False, no selection) is generated without NaN.",
   ref="DESIGN.md section 4 C10")
CHECKS["C06"] = dict(
   technique="stateful property-based testing: bounded-exhaustive and Hypothesis-generated operation histories with an invariant checked after every step",
   text="History search with an invariant: every token sequence up to the bound and random op lists up to 40 steps (append/remove/re-append data, create/remove/edit groups, merge, clear, commands with undo/redo, save+restore) are executed on a real DataCollection; after every step each dataset must carry exactly one subset per live group, groups must list exactly those subsets, members must share state/label/style, and removed datasets/groups must keep no live membership.",
   note="Trusted: the invariant in pbt/props/c06.py as the reading of the statement; finalisers run at fixed points (gc.collect).",
   ref="DESIGN.md section 4 C06")
CHECKS["C11"] = dict(
   technique="model-based property testing (Hypothesis): generated join graphs and selections vs. a by-value key-membership model with path-aware recursion",
   text="Generated-input search with a reference model: for generated tables, key dtypes, join shapes (1-1, n-n, 1-n, n-1), chains and cycles, and selections evaluable on one dataset or none, the mask on every queried dataset must be one the model admits (key membership by value through any joined neighbour), or IncompatibleAttribute when nobody can evaluate it; earlier evaluations (including incompatible ones) on other datasets precede the read, and the recursion guard must be left clear.",
   note="Trusted: the join model in pbt/props/c11.py; any qualifying neighbour's answer is accepted; NaN keys and string/number mixed joins are not generated.",
   ref="DESIGN.md section 4 C11")
CHECKS["C03"] = dict(
   technique="stateful model-based testing (Hypothesis op lists): DataCollection link histories vs. an independent link-closure reference model",
   text="History search with a reference model: generated sequences of add/remove link (one-way, two-way, identity, two-input, LinkSame, LinkTwoWay), add/remove component, append/remove/re-append dataset, with delay blocks, run on a real DataCollection and on a model that computes, per dataset, the least-fixpoint reachable set and the admissible values along minimum-depth chains; after every step reachable sets, values, selections on linked attributes, incompatibility of unreachable ones and the link registry must agree.",
   note="Trusted: the closure model in pbt/props/c03.py; exact arithmetic link functions; same link object never registered twice; no key joins.",
   ref="DESIGN.md section 4 C03")
CHECKS["C13"] = dict(
   technique="stateful property-based testing (Hypothesis op lists) with a snapshot-stack oracle for undo/redo",
   text="History search with a snapshot oracle: generated interleavings of AddData/RemoveData/ApplySubsetState/ApplyROI (all edit modes, generated edit-subset choices), undo, redo and runs of more than 50 commands execute on a real Session; after each undo the observable session state (datasets, groups with label/style/per-dataset masks, per-dataset subsets, edit-subset choice, can_undo_redo) must equal the snapshot taken before the command, after each redo the one taken after it; redo after a new command must raise, the history bound must hold.",
   note="Trusted: the snapshot function; dataset order not compared; labels/colours not compared after a redo re-creates a group; edit mode fixed per history.",
   ref="DESIGN.md section 4 C13")
CHECKS["C14"] = dict(
   technique="property-based differential testing (Hypothesis): generated expression trees / function links / parsed text expressions vs. numpy evaluation; op-list histories vs. a dependency-graph model",
   text="Generated-input search with explicit oracles: arithmetic expression trees over stored, pixel, world and earlier derived attributes with constants on either side, user-function links (vectorised, ravel-returning, constant-returning) and parsed text expressions are read whole and through every view form and must equal the same expression evaluated with numpy on the inputs' full arrays (shape and NaN-equal values); histories of add/remove/update_id must remove exactly the transitive dependents and keep every other value and the component order.",
   note="Trusted: numpy/Python operators as the expression semantics; input values are read from the dataset itself; exponents restricted to {2,3,-1}.",
   ref="DESIGN.md section 4 C14")
CHECKS["C15"] = dict(
   technique="property-based testing (Hypothesis) against own matrix algebra for affine/identity coordinates",
   text="Generated-input search with an explicit oracle: for generated affine matrices of every sparsity pattern (diagonal, coupled, dense, block, permuted, triangular, chain) and identity coordinates, shapes and views, the world attributes, every automatically created pixel->world / world->pixel link (whole and viewed), the coordinate object's own inverse and a second dataset linked to the world attributes must agree with M.pixel-grid computed independently.",
   note="Trusted: numpy matrix arithmetic on dyadic entries (forward exact; inverse rtol 1e-9). astropy WCS objects out of scope.",
   ref="DESIGN.md section 4 C15")
CHECKS["C17"] = dict(
   technique="stateful property-based testing (Hypothesis op lists) with structural invariants, model postconditions and a two-way message<->diff comparison",
   text="History search with invariants: generated sequences over the Data mutation API with valid and invalid arguments (add/remove/reorder/rename/update_id/update_components/update_values_from_data/coords/label), on bare data, data with a hub and data in a collection; after every step all components have the data's shape, there is one pixel (and, with coords, one world) attribute per dimension, ids are unique, name lookup follows the documented precedence, op-specific postconditions hold, and the structural messages seen on the hub correspond exactly to the difference between the component lists before and after.",
   note="Trusted: the invariants and diff logic in pbt/props/c17.py; only messages named in message.py are asserted; pixel/world ids are never removed by hand.",
   ref="DESIGN.md section 4 C17")
CHECKS["C09"] = dict(
   technique="property-based testing (Hypothesis) of roi_to_subset_state against the exact-geometry oracle at plotted positions",
   text="Generated-input search with an explicit oracle: tables with numeric (incl. NaN) and categorical axes in all four combinations and regions of every 2-d kind with edges placed around the integer category positions are turned into selections the way the viewers do; each element must be selected exactly when its plotted position (category index for categorical axes, computed by the harness) lies in the region according to the signed-distance oracle, boundary band excepted.",
   note="Trusted: pbt/oracles/geometry.py; band widened by the 100-gon error where the code polygonises; category order = sorted unique labels.",
   ref="DESIGN.md section 4 C09")
CHECKS["C05"] = dict(
   technique="stateful property-based testing (Hypothesis op lists) with a fresh-rebuild oracle: long-lived objects vs. never-evaluated copies built from their current parameters",
   text="History search with a differential oracle: generated interleavings of reads (masks with views, statistics, histograms, derived and linked values) and mutations (update_components, update_values_from_data incl. new shapes, move_to, ROI field edits, state setters at any depth, state replacement, link add/remove/replace) run on long-lived objects; after every mutation each observable must equal the one from brand-new objects rebuilt from the live objects' current parameters. Histogram layer states (settings) and live histogram/profile viewers (data updates) are covered the same way.",
   note="Trusted: the parameter read-back in pbt/props/c05.py (rebuild_state/rebuild_roi). One open finding (direct ROI field edit under a composite) is suppressed by its exact signature and reproduced on every run.",
   ref="DESIGN.md section 4 C05")
CHECKS["C16"] = dict(
   technique="property-based testing (Hypothesis): generated link geometries and request sequences vs. an own nearest-pixel resampler, with and without a shared cache id",
   text="Generated-input search with a reference implementation: for generated reference/source shapes, axis permutations, scalings and offsets between the pixel frames, bounds (scalar and ranged, partly or wholly outside), value and mask requests, broadcast on/off and sequences of up to 8 requests sharing one cache id (varying bounds, attribute, selection and source dataset), every buffer must equal nearest-pixel resampling computed independently, NaN/False outside the source, with the scalar-bound dimensions dropped.",
   note="Trusted: the resampler in pbt/props/c16.py; exact affine pixel links; samples within 1e-9 of a half-integer position are not compared; data and links fixed within a sequence.",
   ref="DESIGN.md section 4 C16")
CHECKS["C19"] = dict(
   technique="property-based round-trip testing (Hypothesis): export with every registered exporter that has a reader, load back with load_data, compare",
   text="Generated-input search with a round-trip oracle: generated tables (float with NaN, int, text columns; names in generated order) and images (mixed float/int dtypes) are exported whole or as empty/proper/full subsets with each exporter of the registry that has a reader (CSV, FITS table, VO table, HDF5, gridded FITS), loaded back with the auto-detected factory, and compared by name, order and dtype-appropriate values (selected rows for tables, masked pixels for images); a collection of loaded files saved by reference must restore to the same values.",
   note="Trusted: per-format representability table fixed in pbt/props/c19.py (upper-cased FITS extension names, HDF5 ASCII bytes, 0 as HDF5 integer blank); zero-row tables counted, not asserted.",
   ref="DESIGN.md section 4 C19")
CHECKS["C02"] = dict(
   technique="property-based round-trip testing (Hypothesis + exhaustive class sweep): observe(restore(save(x))) == observe(x) and idempotence of a second trip",
   text="Generated-input search with a round-trip oracle: generated collections (all component kinds, coordinates with units/labels, colliding labels, styles, metadata, links of five kinds, key joins, subset groups over every buildable selection and region class incl. n-ary or, multi-range, n-d/projected ROI states and pretransforms) are saved with data included and restored; a canonical observation (labels, order, values, world values, linked attributes with values, joins, per-dataset masks, styles, metadata, uuid) must be unchanged, a second trip must be idempotent, and a load failure after a successful save is a violation. One minimal session per selection class (bare and inside not/and/or/multi-or) is enumerated exhaustively.",
   note="Trusted: the observation function in pbt/session.py; each attribute takes part in at most one link (no ambiguous equal-depth routes); save-time exceptions are a permitted loud outcome; include_data=False is covered in C19.",
   ref="DESIGN.md section 4 C02")
CHECKS["C12"] = dict(
   technique="exhaustive enumeration of the saver/loader registries and the rename table + property-based testing (Hypothesis) of old protocol versions with a version-pinning serializer",
   text="Three parts: (1) every registry key is checked for consecutive versions, matching savers/loaders and save-uses-newest, and generated VersionedDict operation sequences are compared with a dict model; (2) for every (type, version) with several registered versions, generated sessions are written in that version's format by a serializer subclass that pins the version and loaded by the stock unserializer, and the observation must agree on every field that version wrote; (3) every rename-table entry must terminate, resolve when it points into glue, and not capture a class this package still defines and writes (the written _type set is measured from a saved session with all four viewers).",
   note="Trusted: pbt/session.py observation; per-version field table in pbt/props/c12.py; two open findings (histogram/profile layer-artist renames) suppressed by exact signature and reproduced on every run.",
   ref="DESIGN.md section 4 C12")
CHECKS["C18"] = dict(
   technique="stateful property-based testing (Hypothesis op lists) of headless viewers and combo helpers against a layer/choice model",
   text="History search with a model and an invariant: for each built-in viewer kind, generated interleavings of collection operations (append/remove/re-append data, create/remove groups, add/remove components), viewer operations (add_data, add_subset, remove_data, removing one layer), delay blocks and application save+restore run on a headless application; after every step the viewer's layer list, its state's layer list and the model's layer set must agree and nothing may remain for removed objects; image axes must be distinct pixel axes of the reference data. ComponentIDComboHelper / ManualDataComboHelper histories (dataset/component churn, filter toggles, renames, selections) are checked against the documented filter and the selection rule.",
   note="Trusted: the layer model in pbt/props/c18.py (a subset layer is added only when the dataset's layer is present); few and short viewer histories (cost); two open findings (restoring histogram/profile viewers needs glue_qt) excluded by construction and reproduced on every run.",
   ref="DESIGN.md section 4 C18")
NOT_APPLICABLE = []

def main():
    checks = []
    for pid in sorted(CHECKS):
        c = CHECKS[pid]
        checks.append(dict(
            property_id=pid,
            quick_cmd="./check %s quick" % pid,
            thorough_cmd="./check %s thorough" % pid,
            evidence_file="evidence/%s.json" % pid,
            replay_cmd_template="./check %s --replay {path}" % pid,
            engine="pbt",
            level_claimed=dict(category="exploration", text=c["text"], design_ref=c["ref"]),
            level_note=c["note"],
            technique=c["technique"]))
    m = dict(
        version=1,
        setup_cmd="./check setup",
        hooks=dict(guard="GLUE_VERIF", enable="no source hooks: checks import /repo's working tree directly (PYTHONPATH=/repo); GLUE_VERIF=1 is exported by ./check but nothing in /repo reads it",
                   baseline_off_cmd=BASE, source_commits=[], add_only=True),
        engines=[dict(name="pbt", path="pbt/", serves_properties=sorted(CHECKS),
                      kind_free_text="Hypothesis 6.168 strategies over plain-JSON specs + bounded-exhaustive enumeration, sharded over 16 processes; explicit oracles per property in pbt/props and pbt/oracles")],
        checks=checks,
        not_applicable=NOT_APPLICABLE,
        notes="See DESIGN.md. known_findings.json lists open findings (suppressed by narrow signature, reproduced and printed as KNOWN-FINDING on every run) and fixed ones (suppress nothing). Exit 2 = harness error, never reported as a violation.")
    with open(os.path.join(HERE, "MANIFEST.json"), "w") as f:
        json.dump(m, f, indent=1)
    print("wrote MANIFEST.json with", len(checks), "checks")

main()
